// ---------------------------------------------------------------------------------------------
// ASSUMED (A-std / A-intenc): std::io::Read / Write restated over a ghost byte stream, and
// integer_encoding's VarIntReader / VarIntWriter blanket extensions.  `read` may return fewer
// bytes than asked for (any prefix), `read_exact` returns all of them or fails.
// ---------------------------------------------------------------------------------------------
pub trait Read {
    /// bytes not yet consumed
    spec fn rd_stream(&self) -> Seq<u8>;
    /// the source never fails while bytes remain (true of an in-memory `&[u8]`, not of a file)
    spec fn rd_reliable(&self) -> bool;

    fn read(&mut self, buf: &mut [u8]) -> (r: Result<usize, std::io::Error>)
        ensures
            final(buf)@.len() == old(buf)@.len(),
            r matches Ok(n) ==> n <= old(buf)@.len() && n <= old(self).rd_stream().len()
                && final(self).rd_stream() == old(self).rd_stream().subrange(n as int, old(self).rd_stream().len() as int)
                && (forall|i: int| 0 <= i < n ==> final(buf)@[i] == old(self).rd_stream()[i])
                && (forall|i: int| n <= i < old(buf)@.len() ==> final(buf)@[i] == old(buf)@[i]),
    ;

    fn read_exact(&mut self, buf: &mut [u8]) -> (r: Result<(), std::io::Error>)
        ensures
            final(buf)@.len() == old(buf)@.len(),
            r is Ok ==> old(buf)@.len() <= old(self).rd_stream().len()
                && final(buf)@ == old(self).rd_stream().subrange(0, old(buf)@.len() as int)
                && final(self).rd_stream() == old(self).rd_stream().subrange(old(buf)@.len() as int, old(self).rd_stream().len() as int),
            old(buf)@.len() > old(self).rd_stream().len() ==> r is Err,
            old(self).rd_reliable() && old(buf)@.len() <= old(self).rd_stream().len() ==> r is Ok,
            final(self).rd_reliable() == old(self).rd_reliable(),
    ;
}

// ASSUMED (A-std): `impl Read for &[u8]` reads from the front of the slice and advances it.
impl<'a> Read for &'a [u8] {
    open spec fn rd_stream(&self) -> Seq<u8> { (*self)@ }
    open spec fn rd_reliable(&self) -> bool { true }
    #[verifier::external_body]
    fn read(&mut self, buf: &mut [u8]) -> (r: Result<usize, std::io::Error>) { unimplemented!() }
    #[verifier::external_body]
    fn read_exact(&mut self, buf: &mut [u8]) -> (r: Result<(), std::io::Error>) { unimplemented!() }
}

pub trait VarIntReader {
    spec fn vr_stream(&self) -> Seq<u8>;
    spec fn vr_reliable(&self) -> bool;
    fn read_varint<VI: VarInt>(&mut self) -> (r: Result<VI, std::io::Error>)
        ensures
            r matches Ok(v) ==> (var_dec(old(self).vr_stream()) matches Some(p) && p.0 == v.vi_to_u64()
                && final(self).vr_stream() == old(self).vr_stream().subrange(p.1, old(self).vr_stream().len() as int)),
            // (a reliable source fails only on an undecodable or out-of-range varint)
            old(self).vr_reliable() && r is Err ==> (var_dec(old(self).vr_stream()) is None || !VI::vi_fits(var_dec(old(self).vr_stream()).unwrap().0)),
            final(self).vr_reliable() == old(self).vr_reliable(),
    ;
}
impl<R: Read> VarIntReader for R {
    open spec fn vr_stream(&self) -> Seq<u8> { self.rd_stream() }
    open spec fn vr_reliable(&self) -> bool { self.rd_reliable() }
    #[verifier::external_body]
    fn read_varint<VI: VarInt>(&mut self) -> (r: Result<VI, std::io::Error>) { unimplemented!() }
}

// integer_encoding::FixedIntReader (blanket extension of Read), restated over the ghost stream.
pub trait FixedIntReader {
    spec fn fr_stream(&self) -> Seq<u8>;
    spec fn fr_reliable(&self) -> bool;
    fn read_fixedint<FI: FixedInt>(&mut self) -> (r: Result<FI, std::io::Error>)
        ensures
            r matches Ok(v) ==> old(self).fr_stream().len() >= FI::fx_width()
                && v == FI::fx_dec(old(self).fr_stream().subrange(0, FI::fx_width() as int))
                && final(self).fr_stream() == old(self).fr_stream().subrange(FI::fx_width() as int, old(self).fr_stream().len() as int),
            old(self).fr_reliable() && r is Err ==> old(self).fr_stream().len() < FI::fx_width(),
            final(self).fr_reliable() == old(self).fr_reliable(),
    ;
}
impl<R: Read> FixedIntReader for R {
    open spec fn fr_stream(&self) -> Seq<u8> { self.rd_stream() }
    open spec fn fr_reliable(&self) -> bool { self.rd_reliable() }
    #[verifier::external_body]
    fn read_fixedint<FI: FixedInt>(&mut self) -> (r: Result<FI, std::io::Error>) { unimplemented!() }
}
