// ASSUMED (A-snap): snap::read::FrameDecoder over a byte slice yields the snappy decoding of the
// slice (an uninterpreted function of the bytes) or fails; external crate, opaque.
pub uninterp spec fn snap_decode(s: Seq<u8>) -> Seq<u8>;
pub struct FrameDecoder<'a> { pub src: &'a [u8] }
impl<'a> FrameDecoder<'a> {
    #[verifier::external_body]
    pub fn new(src: &'a [u8]) -> (r: Self) ensures r.src@ == src@ { unimplemented!() }
    #[verifier::external_body]
    pub fn read_to_end(&mut self, buf: &mut Vec<u8>) -> (r: Result<usize, std::io::Error>)
        ensures r is Ok ==> final(buf)@ == old(buf)@ + snap_decode(old(self).src@)
    { unimplemented!() }
}
