// ASSUMED (A-snap): snap::read::FrameDecoder over a byte slice yields the snappy decoding of the
// slice (an uninterpreted function of the bytes) or fails; external crate, opaque.
pub uninterp spec fn snap_decode(s: Seq<u8>) -> Seq<u8>;
pub struct FrameDecoder<'a> { pub src: &'a [u8] }
impl<'a> FrameDecoder<'a> {
    #[verifier::external_body]
    pub fn new(src: &'a [u8]) -> (r: Self) ensures r.src@ == src@ { unimplemented!() }
    #[verifier::external_body]
    pub fn read_to_end(&mut self, buf: &mut Vec<u8>) -> (r: Result<usize, std::io::Error>)
        ensures r is Ok ==> final(buf)@ == old(buf)@ + snap_decode(old(self).src@)
    { unimplemented!() }
}

// ASSUMED (A-snap): snap::write::FrameEncoder over a Vec: what `into_inner` returns decodes
// (snap_decode) to the bytes written.
pub struct FrameEncoder { pub sink: Vec<u8>, pub written: Ghost<Seq<u8>> }
impl FrameEncoder {
    #[verifier::external_body]
    pub fn new(sink: Vec<u8>) -> (r: Self) ensures r.written@ == Seq::<u8>::empty() { unimplemented!() }
    #[verifier::external_body]
    pub fn write_all(&mut self, buf: &[u8]) -> (r: Result<(), std::io::Error>)
        ensures r is Ok ==> final(self).written@ == old(self).written@ + buf@
    { unimplemented!() }
    #[verifier::external_body]
    pub fn flush(&mut self) -> (r: Result<(), std::io::Error>) ensures final(self).written@ == old(self).written@ { unimplemented!() }
    #[verifier::external_body]
    pub fn into_inner(self) -> (r: Result<Vec<u8>, VxIntoInnerError>)
        ensures r is Ok, r matches Ok(v) ==> snap_decode(v@) == self.written@   // (an in-memory sink cannot fail)
    { unimplemented!() }
}
#[derive(Debug)]
pub struct VxIntoInnerError {}
