// ---------------------------------------------------------------------------------------------
// A-std (assumed): the standard library's order / equality on byte slices and byte vectors is
// the lexicographic order `lex_cmp` of specs/common/order.vs.
// ---------------------------------------------------------------------------------------------
pub axiom fn axiom_bytes_obey_cmp()
    ensures
        <[u8] as OrdSpec>::obeys_cmp_spec(),
        <[u8] as PartialOrdSpec>::obeys_partial_cmp_spec(),
        <[u8] as PartialEqSpec>::obeys_eq_spec(),
        <Vec<u8> as OrdSpec>::obeys_cmp_spec(),
        <Vec<u8> as PartialOrdSpec>::obeys_partial_cmp_spec(),
        <Vec<u8> as PartialEqSpec>::obeys_eq_spec(),
;

pub broadcast axiom fn axiom_slice_u8_cmp(a: &[u8], b: &[u8])
    ensures #[trigger] OrdSpec::cmp_spec(a, b) == int_to_ord(lex_cmp(a@, b@));

pub broadcast axiom fn axiom_slice_u8_partial_cmp(a: &[u8], b: &[u8])
    ensures #[trigger] PartialOrdSpec::partial_cmp_spec(a, b) == Some(int_to_ord(lex_cmp(a@, b@)));

pub broadcast axiom fn axiom_slice_u8_eq(a: &[u8], b: &[u8])
    ensures #[trigger] PartialEqSpec::eq_spec(a, b) == (a@ == b@);

pub broadcast axiom fn axiom_vec_u8_cmp(a: &Vec<u8>, b: &Vec<u8>)
    ensures #[trigger] OrdSpec::cmp_spec(a, b) == int_to_ord(lex_cmp(a@, b@));

pub broadcast axiom fn axiom_vec_u8_partial_cmp(a: &Vec<u8>, b: &Vec<u8>)
    ensures #[trigger] PartialOrdSpec::partial_cmp_spec(a, b) == Some(int_to_ord(lex_cmp(a@, b@)));

pub broadcast axiom fn axiom_vec_u8_eq(a: &Vec<u8>, b: &Vec<u8>)
    ensures #[trigger] PartialEqSpec::eq_spec(a, b) == (a@ == b@);

// (`slice != vec`, std's `impl PartialEq<Vec<U>> for [T]`)
pub axiom fn axiom_slice_vec_u8_obeys_eq()
    ensures <[u8] as PartialEqSpec<Vec<u8>>>::obeys_eq_spec();
pub broadcast axiom fn axiom_slice_vec_u8_eq(a: &[u8], b: &Vec<u8>)
    ensures #[trigger] PartialEqSpec::eq_spec(a, b) == (a@ == b@);

pub broadcast group group_bytes_order {
    axiom_slice_u8_cmp, axiom_slice_u8_partial_cmp, axiom_slice_u8_eq,
    axiom_vec_u8_cmp, axiom_vec_u8_partial_cmp, axiom_vec_u8_eq, axiom_slice_vec_u8_eq,
}

pub assume_specification [ Ordering::is_eq ] (o: Ordering) -> (r: bool)
    ensures r == (o == Ordering::Equal);

// ASSUMED (A-std): comparison of Rc<T> values is comparison of the pointees.
pub axiom fn axiom_rc_obeys_cmp<T: PartialOrd>()
    ensures <std::rc::Rc<T> as PartialOrdSpec>::obeys_partial_cmp_spec() == <T as PartialOrdSpec>::obeys_partial_cmp_spec();
pub broadcast axiom fn axiom_rc_partial_cmp<T: PartialOrd>(a: &std::rc::Rc<T>, b: &std::rc::Rc<T>)
    ensures #[trigger] PartialOrdSpec::partial_cmp_spec(a, b) == PartialOrdSpec::partial_cmp_spec(&**a, &**b);
