// GENERATED FILE - built by /verif/tools/extract.py from /repo's working tree. Do not edit.
#![allow(unused_imports, unused_variables, dead_code, unused_mut, unused_parens)]
use vstd::prelude::*;
use core::cmp::Ordering;
use vstd::std_specs::cmp::*;
use std::sync::Arc;
verus! {
