// GENERATED FILE - built by /verif/tools/extract.py from /repo's working tree. Do not edit.
#![feature(sized_hierarchy)]
#![feature(allocator_api)]
#![allow(unused_imports, unused_variables, dead_code, unused_mut, unused_parens)]
use vstd::prelude::*;
use core::cmp::Ordering;
use vstd::std_specs::cmp::*;
use std::sync::Arc;
use std::io;
use std::cmp;
use std::fmt::{self, Debug};
use std::io::{ErrorKind, SeekFrom};
use std::num::TryFromIntError;
use std::convert::{TryFrom, TryInto};
use std::ops::Range;
use std::path::{Path, PathBuf};
use std::collections::HashSet;
use core::marker::PointeeSized;
use vstd::std_specs::convert::*;
verus! {
// Assumption: 64-bit target (usize == u64), as on every platform raindb's test-suite runs on.
global size_of usize == 8;
/// R5: `assert!(cond, ..)` of the extracted code becomes `vx_assert(cond)`: a proof obligation.
pub fn vx_assert(c: bool)
    requires c
{
}
