} // verus!
fn main() {}
