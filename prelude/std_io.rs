// ---------------------------------------------------------------------------------------------
// A-std (assumed): std::io::Error / ErrorKind as external types; `?` converts with From::from.
// ---------------------------------------------------------------------------------------------
#[verifier::external_type_specification]
pub struct ExErrorKind(std::io::ErrorKind);

#[verifier::external_type_specification]
#[verifier::external_body]
pub struct ExIoError(std::io::Error);

pub uninterp spec fn io_kind(e: &std::io::Error) -> ErrorKind;
pub uninterp spec fn io_msg(e: std::io::Error) -> String;

pub assume_specification [ std::io::Error::kind ] (e: &std::io::Error) -> (r: ErrorKind)
    ensures r == io_kind(e);

pub mod vx_question_mark {
    use vstd::prelude::*;
    use vstd::std_specs::convert::*;
    /// Rust semantics of the `?` operator: the residual error is converted with `From::from`.
    pub broadcast axiom fn axiom_question_mark_uses_from<E, F: From<E>>(e: E, f: F)
        requires <F as FromSpec<E>>::obeys_from_spec()
        ensures #[trigger] vstd::std_specs::control_flow::spec_from::<F, E>(e, f)
            ==> f == <F as FromSpec<E>>::from_spec(e);
}
broadcast use vx_question_mark::axiom_question_mark_uses_from;

/// Opaque message text (rewrite rule R2 replaces every `format!(..)` by this call).
#[verifier::external_body]
pub fn vx_string() -> (r: String) { unimplemented!() }

/// R7: `[a, b].concat()` on byte vectors.
#[verifier::external_body]
pub fn vx_concat2(a: Vec<u8>, b: Vec<u8>) -> (r: Vec<u8>)
    ensures r@ == a@ + b@
{ unimplemented!() }

/// A-std: <[T]>::to_vec clones element-wise (for u8: an equal sequence).
pub assume_specification<T> [ <[T]>::to_vec ] (s: &[T]) -> (r: std::vec::Vec<T>)
    where T: std::clone::Clone,
    ensures r@.len() == s@.len(), forall|i: int| 0 <= i < s@.len() ==> cloned::<T>(s@[i], #[trigger] r@[i]),
        // (tautology by extensionality; spelled out so that pointwise-equal results are known equal)
        (forall|i: int| 0 <= i < s@.len() ==> r@[i] == s@[i]) ==> r@ == s@;

/// A-std: clone of a byte is the byte.
pub broadcast proof fn lemma_cloned_u8(a: u8, b: u8)
    ensures #[trigger] cloned::<u8>(a, b) ==> a == b
{
}

/// A-std: a Vec<u8> never holds more than isize::MAX bytes (Rust allocation rule).
pub axiom fn axiom_vec_u8_len_bound(v: &Vec<u8>)
    ensures v@.len() <= isize::MAX;
pub axiom fn axiom_slice_u8_len_bound(v: &[u8])
    ensures v@.len() <= isize::MAX;

/// A-std: core::cmp::min on usize.
pub assume_specification<T: Ord> [ core::cmp::min ] (a: T, b: T) -> (r: T)
    ensures <T as OrdSpec>::obeys_cmp_spec() ==> (r == (if <T as OrdSpec>::cmp_spec(&b, &a) == Ordering::Less { b } else { a }));

/// A-std: Vec::extend appends the elements yielded by the argument; for a Vec argument these
/// are its elements in order.
pub uninterp spec fn vx_into_seq<T, I>(i: I) -> Seq<T>;
pub assume_specification<T, A, I> [ <std::vec::Vec<T, A> as std::iter::Extend<T>>::extend ] (v: &mut std::vec::Vec<T, A>, it: I)
    where A: std::alloc::Allocator, I: std::iter::IntoIterator<Item = T>,
    ensures final(v)@ == old(v)@ + vx_into_seq::<T, I>(it);
pub broadcast axiom fn axiom_into_seq_vec<T>(v: Vec<T>)
    ensures #[trigger] vx_into_seq::<T, Vec<T>>(v) == v@;

/// A-std: `Vec<T>: Extend<&T>` (T: Copy) appends copies of the referenced elements; for `&Vec<T>`
/// and `&[T; N]` these are the elements in order.
pub uninterp spec fn vx_into_seq_ref<T, I>(i: I) -> Seq<T>;
pub assume_specification<'a, T: Copy + 'a, A, I> [ <std::vec::Vec<T, A> as std::iter::Extend<&'a T>>::extend ] (v: &mut std::vec::Vec<T, A>, it: I)
    where A: std::alloc::Allocator, I: std::iter::IntoIterator<Item = &'a T>,
    ensures final(v)@ == old(v)@ + vx_into_seq_ref::<T, I>(it);
pub broadcast axiom fn axiom_into_seq_ref_vec<'a, T>(v: &'a Vec<T>)
    ensures #[trigger] vx_into_seq_ref::<T, &'a Vec<T>>(v) == v@;
pub broadcast axiom fn axiom_into_seq_ref_array1<'a, T>(v: &'a [T; 1])
    ensures #[trigger] vx_into_seq_ref::<T, &'a [T; 1]>(v) == v@;

/// A-std: io::Error::new keeps the given kind (rewrite rule R2 maps `io::Error::new(kind, text)` here).
#[verifier::external_body]
pub fn vx_io_error_new(kind: std::io::ErrorKind, text: String) -> (r: std::io::Error)
    ensures io_kind(&r) == kind
{ unimplemented!() }

/// A-std: Option::map_or applies the closure to the payload or returns the default.
pub assume_specification<T, U, F: FnOnce(T) -> U> [ Option::<T>::map_or ] (o: Option<T>, default: U, f: F) -> (r: U)
    ensures
        o is None ==> r == default,
        o matches Some(x) ==> f.ensures((x,), r);

/// A-std: Option::replace.
pub assume_specification<T> [ Option::<T>::replace ] (o: &mut Option<T>, value: T) -> (r: Option<T>)
    ensures r == *old(o), *final(o) == Some(value);
