// ---------------------------------------------------------------------------------------------
// A-intenc (assumed here, PROVED by the Kani harnesses kani/intenc.rs against the vendored
// crate): integer_encoding::FixedInt is a bijection between the integer type and byte strings
// of its width.  decode_fixed requires a slice of exactly that width (the crate does an
// unchecked unaligned read).
// ---------------------------------------------------------------------------------------------
pub trait FixedInt: Sized {
    spec fn fx_width() -> nat;
    spec fn fx_enc(self) -> Seq<u8>;
    spec fn fx_dec(s: Seq<u8>) -> Self;

    fn encode_fixed_vec(self) -> (r: Vec<u8>)
        ensures r@ == self.fx_enc(), r@.len() == Self::fx_width();

    fn decode_fixed(src: &[u8]) -> (r: Self)
        requires src@.len() == Self::fx_width()
        ensures r == Self::fx_dec(src@);
}

pub uninterp spec fn le_enc(x: nat, width: nat) -> Seq<u8>;
pub uninterp spec fn le_dec(s: Seq<u8>) -> nat;

pub broadcast axiom fn axiom_le_enc_len(x: nat, width: nat)
    ensures #[trigger] le_enc(x, width).len() == width;
pub broadcast axiom fn axiom_le_dec_enc(x: nat, width: nat)
    requires width == 2 && x <= u16::MAX || width == 4 && x <= u32::MAX || width == 8 && x <= u64::MAX
    ensures le_dec(#[trigger] le_enc(x, width)) == x;
pub broadcast axiom fn axiom_le_enc_dec(s: Seq<u8>)
    requires s.len() == 2 || s.len() == 4 || s.len() == 8
    ensures #[trigger] le_enc(le_dec(s), s.len()) == s,
        s.len() == 2 ==> le_dec(s) <= u16::MAX,
        s.len() == 4 ==> le_dec(s) <= u32::MAX,
        s.len() == 8 ==> le_dec(s) <= u64::MAX;
pub broadcast group group_le { axiom_le_enc_len, axiom_le_dec_enc, axiom_le_enc_dec }

impl FixedInt for u16 {
    open spec fn fx_width() -> nat { 2 }
    open spec fn fx_enc(self) -> Seq<u8> { le_enc(self as nat, 2) }
    open spec fn fx_dec(s: Seq<u8>) -> Self { le_dec(s) as u16 }
    #[verifier::external_body]
    fn encode_fixed_vec(self) -> (r: Vec<u8>) { unimplemented!() }
    #[verifier::external_body]
    fn decode_fixed(src: &[u8]) -> (r: Self) { unimplemented!() }
}
impl FixedInt for u32 {
    open spec fn fx_width() -> nat { 4 }
    open spec fn fx_enc(self) -> Seq<u8> { le_enc(self as nat, 4) }
    open spec fn fx_dec(s: Seq<u8>) -> Self { le_dec(s) as u32 }
    #[verifier::external_body]
    fn encode_fixed_vec(self) -> (r: Vec<u8>) { unimplemented!() }
    #[verifier::external_body]
    fn decode_fixed(src: &[u8]) -> (r: Self) { unimplemented!() }
}
impl FixedInt for u64 {
    open spec fn fx_width() -> nat { 8 }
    open spec fn fx_enc(self) -> Seq<u8> { le_enc(self as nat, 8) }
    open spec fn fx_dec(s: Seq<u8>) -> Self { le_dec(s) as u64 }
    #[verifier::external_body]
    fn encode_fixed_vec(self) -> (r: Vec<u8>) { unimplemented!() }
    #[verifier::external_body]
    fn decode_fixed(src: &[u8]) -> (r: Self) { unimplemented!() }
}
