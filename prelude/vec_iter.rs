// ASSUMED (A-std, rule R14 kind `vec`): the iteration protocol of `Vec<T>::into_iter()` /
// `vec::IntoIter<T>::next()` - the elements of the vector, in order, each handed out once.
// `for x in v { body }` over a vector taken by value is written
// `let mut q = vx_vec_into_iter(v); while q.has_next() { let x = q.take_next(); body }`.
#[verifier::external_body]
#[verifier::reject_recursive_types(T)]
pub struct VxVecIter<T> { v: std::vec::IntoIter<T> }
impl<T> VxVecIter<T> {
    /// all elements of the vector the iterator was made from
    pub uninterp spec fn all(&self) -> Seq<T>;
    /// how many were handed out
    pub uninterp spec fn pos(&self) -> int;
    #[verifier::external_body]
    pub fn has_next(&self) -> (r: bool)
        ensures r == (self.pos() < self.all().len()), 0 <= self.pos() <= self.all().len(),
    { unimplemented!() }
    #[verifier::external_body]
    pub fn take_next(&mut self) -> (r: T)
        requires 0 <= old(self).pos() < old(self).all().len(),
        ensures r == old(self).all()[old(self).pos()], final(self).all() == old(self).all(), final(self).pos() == old(self).pos() + 1,
    { unimplemented!() }
}
#[verifier::external_body]
pub fn vx_vec_into_iter<T>(v: Vec<T>) -> (r: VxVecIter<T>)
    ensures r.all() == v@, r.pos() == 0,
{ unimplemented!() }
