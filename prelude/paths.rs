// A-std (assumed): std::path types are opaque; AsRef<Path> is the std trait.
#[verifier::external_type_specification]
#[verifier::external_body]
pub struct ExPath(std::path::Path);
#[verifier::external_type_specification]
#[verifier::external_body]
pub struct ExPathBuf(std::path::PathBuf);
pub uninterp spec fn spec_as_ref<S: PointeeSized, T: PointeeSized>(s: &S) -> &T;
#[verifier::external_trait_specification]
pub trait ExAsRef<T: PointeeSized>: PointeeSized {
    type ExternalTraitSpecificationFor: core::convert::AsRef<T>;
    fn as_ref(&self) -> (r: &T)
        ensures r == spec_as_ref::<Self, T>(self);
}
pub assume_specification [ Path::to_path_buf ] (p: &Path) -> (r: PathBuf);

// ASSUMED (A-std): Rc<T>::as_ref is the pointee.
pub broadcast axiom fn axiom_rc_as_ref<T>(rc: &std::rc::Rc<T>)
    ensures #[trigger] spec_as_ref::<std::rc::Rc<T>, T>(rc) == &**rc;
