// A-std (assumed): std::path types are opaque; AsRef<Path> is the std trait.
#[verifier::external_type_specification]
#[verifier::external_body]
pub struct ExPath(std::path::Path);
#[verifier::external_type_specification]
#[verifier::external_body]
pub struct ExPathBuf(std::path::PathBuf);
pub uninterp spec fn spec_as_ref<S: PointeeSized, T: PointeeSized>(s: &S) -> &T;
#[verifier::external_trait_specification]
pub trait ExAsRef<T: PointeeSized>: PointeeSized {
    type ExternalTraitSpecificationFor: core::convert::AsRef<T>;
    fn as_ref(&self) -> (r: &T)
        ensures r == spec_as_ref::<Self, T>(self);
}
pub assume_specification [ Path::to_path_buf ] (p: &Path) -> (r: PathBuf);
