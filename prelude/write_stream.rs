// ---------------------------------------------------------------------------------------------
// ASSUMED (A-std / A-intenc): std::io::Write restated over a ghost byte sink, and
// integer_encoding's VarIntWriter blanket extension.  `Vec<u8>` is an infallible sink.
// ---------------------------------------------------------------------------------------------
pub trait Write {
    /// everything written so far
    spec fn wr_sink(&self) -> Seq<u8>;
    /// writes never fail (true of `Vec<u8>`)
    spec fn wr_infallible(&self) -> bool;

    fn write_all(&mut self, buf: &[u8]) -> (r: Result<(), std::io::Error>)
        ensures
            r is Ok ==> final(self).wr_sink() == old(self).wr_sink() + buf@,
            old(self).wr_infallible() ==> r is Ok,
            final(self).wr_infallible() == old(self).wr_infallible(),
    ;
}

// ASSUMED (A-std): `impl Write for Vec<u8>` appends and never fails.
impl Write for Vec<u8> {
    open spec fn wr_sink(&self) -> Seq<u8> { self@ }
    open spec fn wr_infallible(&self) -> bool { true }
    #[verifier::external_body]
    fn write_all(&mut self, buf: &[u8]) -> (r: Result<(), std::io::Error>) { unimplemented!() }
}

pub trait VarIntWriter {
    spec fn vw_sink(&self) -> Seq<u8>;
    spec fn vw_infallible(&self) -> bool;
    fn write_varint<VI: VarInt>(&mut self, n: VI) -> (r: Result<usize, std::io::Error>)
        ensures
            r matches Ok(k) ==> final(self).vw_sink() == old(self).vw_sink() + var_enc(n.vi_to_u64()) && k == var_enc(n.vi_to_u64()).len(),
            old(self).vw_infallible() ==> r is Ok,
            final(self).vw_infallible() == old(self).vw_infallible(),
    ;
}
impl<W: Write> VarIntWriter for W {
    open spec fn vw_sink(&self) -> Seq<u8> { self.wr_sink() }
    open spec fn vw_infallible(&self) -> bool { self.wr_infallible() }
    #[verifier::external_body]
    fn write_varint<VI: VarInt>(&mut self, n: VI) -> (r: Result<usize, std::io::Error>) { unimplemented!() }
}
