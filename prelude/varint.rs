// ---------------------------------------------------------------------------------------------
// A-intenc (assumed here; the round trip is checked by the Kani harness kani/intenc.rs against the
// vendored crate): integer_encoding::VarInt for u64 / u32.
// ---------------------------------------------------------------------------------------------
pub uninterp spec fn var_enc(x: u64) -> Seq<u8>;
/// decoding a buffer: Some((value, bytes consumed)) or None
pub uninterp spec fn var_dec(s: Seq<u8>) -> Option<(u64, int)>;

pub broadcast axiom fn axiom_var_enc_len(x: u64)
    ensures 1 <= (#[trigger] var_enc(x)).len() <= 10;
pub broadcast axiom fn axiom_var_dec_enc(x: u64, rest: Seq<u8>)
    ensures #[trigger] var_dec(var_enc(x) + rest) == Some((x, var_enc(x).len() as int));
pub broadcast axiom fn axiom_var_dec_bounds(s: Seq<u8>)
    ensures (#[trigger] var_dec(s)) matches Some(p) ==> 1 <= p.1 <= s.len() && p.1 <= 10;
pub broadcast group group_varint { axiom_var_enc_len, axiom_var_dec_enc, axiom_var_dec_bounds }

pub trait VarInt: Sized {
    spec fn vi_to_u64(self) -> u64;
    spec fn vi_fits(x: u64) -> bool;
    /// what the vendored crate's `result as Self` makes of the decoded 64-bit value
    spec fn vi_trunc(x: u64) -> u64;
    fn encode_var_vec(self) -> (r: Vec<u8>)
        ensures r@ == var_enc(self.vi_to_u64());
    fn decode_var(src: &[u8]) -> (r: Option<(Self, usize)>)
        ensures
            // (integer-encoding 3.0.4 `impl_varint!`: decodes as u64, then `result as Self` - a value that does
            // not fit the narrow type is TRUNCATED, not rejected; `None` only for an unterminated varint)
            r matches Some(p) ==> (var_dec(src@) matches Some(d) && d.1 == p.1 as int && p.0.vi_to_u64() == Self::vi_trunc(d.0)),
            r is None ==> var_dec(src@) is None;
}
impl VarInt for u64 {
    open spec fn vi_to_u64(self) -> u64 { self }
    open spec fn vi_fits(x: u64) -> bool { true }
    open spec fn vi_trunc(x: u64) -> u64 { x }
    #[verifier::external_body]
    fn encode_var_vec(self) -> (r: Vec<u8>) { unimplemented!() }
    #[verifier::external_body]
    fn decode_var(src: &[u8]) -> (r: Option<(Self, usize)>) { unimplemented!() }
}
impl VarInt for u32 {
    open spec fn vi_to_u64(self) -> u64 { self as u64 }
    open spec fn vi_fits(x: u64) -> bool { x <= u32::MAX }
    open spec fn vi_trunc(x: u64) -> u64 { (x as u32) as u64 }
    #[verifier::external_body]
    fn encode_var_vec(self) -> (r: Vec<u8>) { unimplemented!() }
    #[verifier::external_body]
    fn decode_var(src: &[u8]) -> (r: Option<(Self, usize)>) { unimplemented!() }
}
