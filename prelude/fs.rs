// ---------------------------------------------------------------------------------------------
// A-fs (assumed): the file traits of src/fs/traits.rs restated with contracts over a ghost byte
// sequence.  These are *assumptions about the environment* (file system implementation), see
// DESIGN.md section 3.  Methods inherited from std::io::{Read, Write, Seek} are flattened into
// the two traits.
// ---------------------------------------------------------------------------------------------
#[verifier::external_type_specification]
pub struct ExSeekFrom(std::io::SeekFrom);

pub open spec fn vx_min(a: int, b: int) -> int { if a < b { a } else { b } }

pub trait ReadonlyRandomAccessFile {
    /// Bytes of the file.
    spec fn contents(&self) -> Seq<u8>;
    /// Position of the Read/Seek cursor.
    spec fn cursor(&self) -> int;

    /// std::io::Read::read: returns min(buf.len(), remaining) bytes at the cursor.
    fn read(&mut self, buf: &mut [u8]) -> (r: Result<usize, std::io::Error>)
        requires 0 <= old(self).cursor()
        ensures
            final(self).contents() == old(self).contents(),
            final(buf)@.len() == old(buf)@.len(),
            r matches Ok(n) ==> {
                &&& n as int == vx_min(old(buf)@.len() as int,
                        if old(self).cursor() <= old(self).contents().len() { old(self).contents().len() - old(self).cursor() } else { 0 })
                &&& final(self).cursor() == old(self).cursor() + n
                &&& forall|i: int| 0 <= i < n ==> final(buf)@[i] == old(self).contents()[old(self).cursor() + i]
                &&& forall|i: int| n <= i < old(buf)@.len() ==> final(buf)@[i] == old(buf)@[i]
            },
            r matches Err(e) ==> io_kind(&e) != ErrorKind::UnexpectedEof,
    ;

    /// std::io::Read::read_exact: fills buf or fails; UnexpectedEof iff fewer bytes remain.
    fn read_exact(&mut self, buf: &mut [u8]) -> (r: Result<(), std::io::Error>)
        requires 0 <= old(self).cursor()
        ensures
            final(self).contents() == old(self).contents(),
            final(buf)@.len() == old(buf)@.len(),
            r is Ok ==> {
                &&& old(self).cursor() + old(buf)@.len() <= old(self).contents().len()
                &&& final(self).cursor() == old(self).cursor() + old(buf)@.len()
                &&& forall|i: int| 0 <= i < old(buf)@.len() ==> final(buf)@[i] == old(self).contents()[old(self).cursor() + i]
            },
            r matches Err(e) ==> (io_kind(&e) == ErrorKind::UnexpectedEof
                <==> old(self).cursor() + old(buf)@.len() > old(self).contents().len()),
    ;

    /// std::io::Seek::seek
    fn seek(&mut self, pos: std::io::SeekFrom) -> (r: Result<u64, std::io::Error>)
        ensures
            final(self).contents() == old(self).contents(),
            match (r, pos) { (Ok(n), std::io::SeekFrom::Start(p)) => n == p && final(self).cursor() == p, _ => true },
    ;

    /// Read starting at `offset`; does not move the cursor.
    fn read_from(&self, buf: &mut [u8], offset: usize) -> (r: Result<usize, std::io::Error>)
        ensures
            final(buf)@.len() == old(buf)@.len(),
            r matches Ok(n) ==> {
                &&& n as int == vx_min(old(buf)@.len() as int,
                        if offset <= self.contents().len() { self.contents().len() - offset } else { 0 })
                &&& forall|i: int| 0 <= i < n ==> final(buf)@[i] == self.contents()[offset + i]
                &&& forall|i: int| n <= i < old(buf)@.len() ==> final(buf)@[i] == old(buf)@[i]
            },
    ;

    fn len(&self) -> (r: Result<u64, std::io::Error>)
        ensures r matches Ok(n) ==> n as int == self.contents().len(),
            // a metadata query does not fail with "unexpected end of file"
            r matches Err(e) ==> io_kind(&e) != ErrorKind::UnexpectedEof,
    ;
}

pub trait RandomAccessFile {
    spec fn contents(&self) -> Seq<u8>;

    /// std::io::Write::write_all on an append-mode handle: appends exactly `buf` on Ok and some
    /// prefix of it on Err.
    fn write_all(&mut self, buf: &[u8]) -> (r: Result<(), std::io::Error>)
        ensures
            r is Ok ==> final(self).contents() == old(self).contents() + buf@,
            r is Err ==> exists|k: int| 0 <= k <= buf@.len()
                && final(self).contents() == old(self).contents() + #[trigger] buf@.subrange(0, k),
    ;

    fn flush(&mut self) -> (r: Result<(), std::io::Error>)
        ensures final(self).contents() == old(self).contents(),
    ;

    fn len(&self) -> (r: Result<u64, std::io::Error>)
        ensures r matches Ok(n) ==> n as int == self.contents().len(),
    ;
}

pub trait FileSystem {
    /// Contents of the file stored at `path` at the time of the call (empty if it does not exist).
    spec fn file_at(&self, path: &Path) -> Seq<u8>;

    fn create_file(&self, path: &Path, append: bool) -> (r: Result<Box<dyn RandomAccessFile>, std::io::Error>)
        ensures r matches Ok(f) ==> f.contents() == (if append { self.file_at(path) } else { Seq::<u8>::empty() }),
    ;

    fn open_file(&self, path: &Path) -> (r: Result<Box<dyn ReadonlyRandomAccessFile>, std::io::Error>)
        ensures r matches Ok(f) ==> f.contents() == self.file_at(path) && f.cursor() == 0,
    ;
}
