// ---------------------------------------------------------------------------------------------
// A-crc (assumed): crc::Crc<u32>::checksum is a deterministic function of the bytes.
// No collision-freedom is assumed anywhere.  The real `const CRC_CALCULATOR: Crc<u32>` of
// src/logs.rs and src/tables/*.rs is replaced by this stand-in (external crate).
// ---------------------------------------------------------------------------------------------
pub uninterp spec fn spec_crc(data: Seq<u8>) -> u32;
pub struct VxCrc32 {}
impl VxCrc32 {
    #[verifier::external_body]
    pub fn checksum(&self, data: &[u8]) -> (r: u32)
        ensures r == spec_crc(data@)
    { unimplemented!() }
}
pub const CRC_CALCULATOR: VxCrc32 = VxCrc32 {};
