// ---------------------------------------------------------------------------------------------
// A-crc (assumed): crc::Crc<u32>::checksum is a deterministic function of the bytes.
// No collision-freedom is assumed anywhere.  The real `const CRC_CALCULATOR: Crc<u32>` of
// src/logs.rs and src/tables/*.rs is replaced by this stand-in (external crate).
// ---------------------------------------------------------------------------------------------
pub uninterp spec fn spec_crc(data: Seq<u8>) -> u32;
pub struct VxCrc32 {}
impl VxCrc32 {
    #[verifier::external_body]
    pub fn checksum(&self, data: &[u8]) -> (r: u32)
        ensures r == spec_crc(data@)
    { unimplemented!() }
}
pub const CRC_CALCULATOR: VxCrc32 = VxCrc32 {};

/// incremental form (`CRC_CALCULATOR.digest()`, `update`, `finalize`): the checksum of the
/// concatenation of the updates
pub struct VxDigest { pub data: Ghost<Seq<u8>> }
impl VxCrc32 {
    #[verifier::external_body]
    pub fn digest(&self) -> (r: VxDigest) ensures r.data@ == Seq::<u8>::empty() { unimplemented!() }
}
impl VxDigest {
    #[verifier::external_body]
    pub fn update(&mut self, bytes: &[u8]) ensures final(self).data@ == old(self).data@ + bytes@ { unimplemented!() }
    #[verifier::external_body]
    pub fn finalize(self) -> (r: u32) ensures r == spec_crc(self.data@) { unimplemented!() }
}
