// ASSUMED (A-lock): parking_lot::RwLock as an opaque container (only construction is used by the
// functions under contract; `read()` is given sequential semantics where a unit needs it).
#[verifier::external_body]
#[verifier::reject_recursive_types(T)]
pub struct RwLock<T> { v: T }
impl<T> RwLock<T> {
    pub uninterp spec fn view(&self) -> T;
    #[verifier::external_body]
    pub fn new(v: T) -> (r: Self) ensures r.view() == v { unimplemented!() }
    #[verifier::external_body]
    pub fn read(&self) -> (r: &T) ensures *r == self.view() { unimplemented!() }
    /// (only used for reading through a write guard in the functions under contract)
    #[verifier::external_body]
    pub fn write(&self) -> (r: &T) ensures *r == self.view() { unimplemented!() }
}
