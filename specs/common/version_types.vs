// ---------------------------------------------------------------------------------------------
// Version / SharedNode (src/versioning/version.rs, src/utils/linked_list.rs): only the fields
// the contracts mention.  parking_lot::RwLock is the opaque stand-in of prelude/locks.rs.
// ---------------------------------------------------------------------------------------------
//@const src/config.rs :: MAX_NUM_LEVELS
//@struct src/utils/linked_list.rs :: Node keep: element flags: no-where
//@type src/utils/linked_list.rs :: SharedNode
// opaque stand-in for options::DbOptions (the functions under contract only pass it through)
pub struct DbOptions {}
//@struct src/versioning/version.rs :: Version keep: db_options files

pub open spec fn fm_small_user(f: &FileMetadata) -> Seq<u8> { f.smallest_key.unwrap().user_key@ }
pub open spec fn fm_large_user(f: &FileMetadata) -> Seq<u8> { f.largest_key.unwrap().user_key@ }
pub open spec fn file_bounded(f: &FileMetadata) -> bool {
    f.smallest_key.is_some() && f.largest_key.is_some() && lex_le(fm_small_user(f), fm_large_user(f))
}
/// A level >= 1: files ordered and pairwise disjoint by user key.
pub open spec fn level_sorted_disjoint(fs: Seq<Arc<FileMetadata>>) -> bool {
    &&& forall|i: int| 0 <= i < fs.len() ==> file_bounded(&*#[trigger] fs[i])
    &&& forall|i: int, j: int| 0 <= i < j < fs.len() ==> lex_lt(fm_large_user(&*#[trigger] fs[i]), fm_small_user(&*#[trigger] fs[j]))
}
/// the user key lies in the file's user-key range
pub open spec fn file_covers_user(f: &FileMetadata, u: Seq<u8>) -> bool {
    lex_le(fm_small_user(f), u) && lex_le(u, fm_large_user(f))
}
