// ---------------------------------------------------------------------------------------------
// Version / SharedNode (src/versioning/version.rs, src/utils/linked_list.rs): only the fields
// the contracts mention.  parking_lot::RwLock is the opaque stand-in of prelude/locks.rs.
// ---------------------------------------------------------------------------------------------
//@const src/config.rs :: MAX_NUM_LEVELS
//@struct src/utils/linked_list.rs :: Node keep: element flags: no-where
//@type src/utils/linked_list.rs :: SharedNode
// opaque stand-in for options::DbOptions (the functions under contract only pass it through)
pub struct DbOptions {}
//@struct src/versioning/version.rs :: Version keep: db_options files

//@include specs/common/fm_keys.vs
pub open spec fn fm_small_user(f: &FileMetadata) -> Seq<u8> { f.smallest_key.unwrap().user_key@ }
pub open spec fn fm_large_user(f: &FileMetadata) -> Seq<u8> { f.largest_key.unwrap().user_key@ }
/// both bounds are set and smallest <= largest in the internal-key order
pub open spec fn file_bounded(f: &FileMetadata) -> bool {
    f.smallest_key.is_some() && f.largest_key.is_some() && ik_le(fm_smallest(f), fm_largest(f))
}
/// A level >= 1 as VersionBuilder::maybe_add_file guarantees it: files ordered and pairwise
/// disjoint in the INTERNAL-key order (two neighbouring files may share a boundary user key).
pub open spec fn level_sorted_disjoint(fs: Seq<Arc<FileMetadata>>) -> bool {
    &&& forall|i: int| 0 <= i < fs.len() ==> file_bounded(&*#[trigger] fs[i])
    &&& forall|i: int, j: int| 0 <= i < j < fs.len() ==> ik_lt(fm_largest(&*#[trigger] fs[i]), fm_smallest(&*#[trigger] fs[j]))
}
/// the user key lies in the file's user-key range
pub open spec fn file_covers_user(f: &FileMetadata, u: Seq<u8>) -> bool {
    lex_le(fm_small_user(f), u) && lex_le(u, fm_large_user(f))
}

/// user-key consequences of the internal-key facts above
pub proof fn lemma_file_bounded_users(f: &FileMetadata)
    requires file_bounded(f)
    ensures lex_le(fm_small_user(f), fm_large_user(f))
{
    lemma_ik_user_order(fm_smallest(f), fm_largest(f));
    lemma_ik_eq(fm_smallest(f), fm_largest(f));
    lemma_lex_eq(fm_small_user(f), fm_large_user(f));
}
pub proof fn lemma_level_users(fs: Seq<Arc<FileMetadata>>, i: int, j: int)
    requires level_sorted_disjoint(fs), 0 <= i < j < fs.len()
    ensures lex_le(fm_large_user(&*fs[i]), fm_small_user(&*fs[j])),
        lex_le(fm_small_user(&*fs[i]), fm_large_user(&*fs[i])), lex_le(fm_small_user(&*fs[j]), fm_large_user(&*fs[j])),
{
    lemma_ik_user_order(fm_largest(&*fs[i]), fm_smallest(&*fs[j]));
    lemma_file_bounded_users(&*fs[i]);
    lemma_file_bounded_users(&*fs[j]);
}
