// find_file_with_upper_bound_range (src/versioning/utils.rs): binary search over a level's files.
//@include specs/common/fm_keys.vs

/// Files sorted by largest key (what "sorted and disjoint" gives the binary search).
pub open spec fn sorted_by_largest(files: Seq<Arc<FileMetadata>>) -> bool {
    (forall|i: int| 0 <= i < files.len() ==> (#[trigger] files[i]).largest_key.is_some())
    && forall|i: int, j: int| 0 <= i < j < files.len() ==>
        ik_le(fm_largest(&*#[trigger] files[i]), fm_largest(&*#[trigger] files[j]))
}

//@fn src/versioning/utils.rs :: find_file_with_upper_bound_range props: C01 C03 C04 C07
//@sig
    requires
        sorted_by_largest(files@),
        files@.len() <= usize::MAX / 2,
    ensures
        r matches Some(i) ==> i < files@.len()
            && !ik_lt(fm_largest(&*files@[i as int]), *target_user_key)
            && forall|j: int| 0 <= j < i ==> ik_lt(fm_largest(&*#[trigger] files@[j]), *target_user_key), // [found-lower-bound]
        r is None ==> forall|j: int| 0 <= j < files@.len() ==>
            ik_lt(fm_largest(&*#[trigger] files@[j]), *target_user_key), // [none-all-smaller]
//@loop 1
        invariant
            left <= right <= files@.len(),
            files@.len() <= usize::MAX / 2,
            sorted_by_largest(files@),
            forall|j: int| 0 <= j < left ==> ik_lt(fm_largest(&*#[trigger] files@[j]), *target_user_key),
            forall|j: int| right <= j < files@.len() ==> !ik_lt(fm_largest(&*#[trigger] files@[j]), *target_user_key),
        decreases right - left,
//@loop-start 1
        proof {
            assert forall|j: int| 0 <= j < files@.len() implies
                (ik_lt(fm_largest(&*#[trigger] files@[j]), *target_user_key) ==> forall|k: int| 0 <= k <= j ==> ik_lt(fm_largest(&*#[trigger] files@[k]), *target_user_key)) by {
                if ik_lt(fm_largest(&*files@[j]), *target_user_key) {
                    assert forall|k: int| 0 <= k <= j implies ik_lt(fm_largest(&*#[trigger] files@[k]), *target_user_key) by {
                        if k < j { lemma_ik_trans(fm_largest(&*files@[k]), fm_largest(&*files@[j]), *target_user_key); }
                    }
                }
            }
            assert forall|j: int| 0 <= j < files@.len() implies
                (!ik_lt(fm_largest(&*#[trigger] files@[j]), *target_user_key) ==> forall|k: int| j <= k < files@.len() ==> !ik_lt(fm_largest(&*#[trigger] files@[k]), *target_user_key)) by {
                if !ik_lt(fm_largest(&*files@[j]), *target_user_key) {
                    assert forall|k: int| j <= k < files@.len() implies !ik_lt(fm_largest(&*#[trigger] files@[k]), *target_user_key) by {
                        if k > j && ik_lt(fm_largest(&*files@[k]), *target_user_key) {
                            lemma_ik_trans(fm_largest(&*files@[j]), fm_largest(&*files@[k]), *target_user_key);
                        }
                    }
                }
            }
        }
//@endfn

