// ---------------------------------------------------------------------------------------------
// Error types of src/errors.rs used by the log code (real definitions, extracted).
// ---------------------------------------------------------------------------------------------
//@struct src/errors.rs :: LogCorruptionErrorMetadata derive: Debug
//@enum src/errors.rs :: LogIOError derive: Debug
//@enum src/errors.rs :: LogSerializationErrorKind derive: Debug
//@struct src/errors.rs :: DBIOError derive: Debug

//@impl src/errors.rs :: impl DBIOError
//@fn new
//@sig
    ensures r.error_kind == error_kind, r.custom_message == custom_message,
//@endfn
//@fn kind
//@sig
    ensures r == self.error_kind,
//@endfn
//@endimpl

// A-std (assumed): `impl From<io::Error> for DBIOError` keeps the error kind (its body calls
// io::Error::to_string, which is outside Verus).
impl From<std::io::Error> for DBIOError {
    #[verifier::external_body]
    fn from(io_err: std::io::Error) -> (r: Self) { unimplemented!() }
}
impl FromSpecImpl<std::io::Error> for DBIOError {
    open spec fn obeys_from_spec() -> bool { true }
    open spec fn from_spec(e: std::io::Error) -> Self {
        DBIOError { error_kind: io_kind(&e), custom_message: io_msg(e) }
    }
}

//@impl src/errors.rs :: impl From<io::Error> for LogIOError as: impl From<std::io::Error> for LogIOError
//@fn from
//@sig
//@endfn
//@endimpl
impl FromSpecImpl<std::io::Error> for LogIOError {
    open spec fn obeys_from_spec() -> bool { true }
    open spec fn from_spec(e: std::io::Error) -> Self {
        LogIOError::IO(<DBIOError as FromSpec<std::io::Error>>::from_spec(e))
    }
}

//@impl src/errors.rs :: impl From<TryFromIntError> for LogIOError as: impl From<core::num::TryFromIntError> for LogIOError
//@fn from
//@sig
//@endfn
//@endimpl
impl FromSpecImpl<core::num::TryFromIntError> for LogIOError {
    open spec fn obeys_from_spec() -> bool { true }
    open spec fn from_spec(e: core::num::TryFromIntError) -> Self {
        LogIOError::Seralization(LogSerializationErrorKind::FromInt(e))
    }
}
