// ---------------------------------------------------------------------------------------------
// Error types of src/errors.rs used by the log code (real definitions, extracted).
// ---------------------------------------------------------------------------------------------
//@include specs/common/dbio_error.vs
//@struct src/errors.rs :: LogCorruptionErrorMetadata derive: Debug
//@enum src/errors.rs :: LogIOError derive: Debug
//@enum src/errors.rs :: LogSerializationErrorKind derive: Debug

//@impl src/errors.rs :: impl From<io::Error> for LogIOError as: impl From<std::io::Error> for LogIOError
//@fn from
//@sig
//@endfn
//@endimpl
impl FromSpecImpl<std::io::Error> for LogIOError {
    open spec fn obeys_from_spec() -> bool { true }
    open spec fn from_spec(e: std::io::Error) -> Self {
        LogIOError::IO(<DBIOError as FromSpec<std::io::Error>>::from_spec(e))
    }
}

//@impl src/errors.rs :: impl From<TryFromIntError> for LogIOError as: impl From<core::num::TryFromIntError> for LogIOError
//@fn from
//@sig
//@endfn
//@endimpl
impl FromSpecImpl<core::num::TryFromIntError> for LogIOError {
    open spec fn obeys_from_spec() -> bool { true }
    open spec fn from_spec(e: core::num::TryFromIntError) -> Self {
        LogIOError::Seralization(LogSerializationErrorKind::FromInt(e))
    }
}
