// ---------------------------------------------------------------------------------------------
// BlockHandle (src/tables/block_handle.rs): (offset, size) as two varints.
// ---------------------------------------------------------------------------------------------
//@struct src/tables/block_handle.rs :: BlockHandle

pub open spec fn bh_bytes(h: &BlockHandle) -> Seq<u8> { var_enc(h.offset) + var_enc(h.size) }

//@impl src/tables/block_handle.rs :: impl BlockHandle
//@fn new
//@sig
    ensures r.offset == offset, r.size == size,
//@endfn
//@fn get_offset
//@sig
    ensures r == self.offset,
//@endfn
//@fn get_size
//@sig
    ensures r == self.size,
//@endfn
//@fn deserialize props: C13
//@sig
    ensures
        // decoding what From<&BlockHandle> wrote gives the handle back (with any trailing bytes)
        forall|h: BlockHandle, rest: Seq<u8>| buf@ == #[trigger] (bh_bytes(&h) + rest) ==> (r matches Ok(p) && p.0 == h && p.1 == bh_bytes(&h).len()), // [handle-roundtrip]
        r matches Ok(p) ==> p.1 <= buf@.len(),
//@body-start
        broadcast use group_varint;
        proof {
            assert forall|h: BlockHandle, rest: Seq<u8>| buf@ == #[trigger] (bh_bytes(&h) + rest) implies
                var_dec(buf@) == Some((h.offset, var_enc(h.offset).len() as int))
                && var_dec(buf@.subrange(var_enc(h.offset).len() as int, buf@.len() as int)) == Some((h.size, var_enc(h.size).len() as int)) by {
                assert(buf@ =~= var_enc(h.offset) + (var_enc(h.size) + rest));
                assert(buf@.subrange(var_enc(h.offset).len() as int, buf@.len() as int) =~= var_enc(h.size) + rest);
            }
        }
//@endfn
//@endimpl

//@impl src/tables/block_handle.rs :: impl TryFrom<&Vec<u8>> for BlockHandle
//@fn try_from props: C13
//@sig
    ensures
        forall|h: BlockHandle| value@ == #[trigger] bh_bytes(&h) ==> r == Ok::<BlockHandle, ReadError>(h), // [handle-roundtrip]
//@body-start
        proof {
            assert forall|h: BlockHandle| value@ == #[trigger] bh_bytes(&h) implies value@ == bh_bytes(&h) + Seq::<u8>::empty() by {
                assert(bh_bytes(&h) + Seq::<u8>::empty() =~= bh_bytes(&h));
            }
        }
//@endfn
//@endimpl
impl TryFromSpecImpl<&Vec<u8>> for BlockHandle {
    open spec fn obeys_try_from_spec() -> bool { false }
    uninterp spec fn try_from_spec(v: &Vec<u8>) -> Result<Self, Self::Error>;
}

//@impl src/tables/block_handle.rs :: impl From<&BlockHandle> for Vec<u8>
//@fn from props: C13
//@sig
    ensures r@ == bh_bytes(value), // [handle-layout]
//@endfn
//@endimpl
impl FromSpecImpl<&BlockHandle> for Vec<u8> {
    open spec fn obeys_from_spec() -> bool { false }
    uninterp spec fn from_spec(h: &BlockHandle) -> Self;
}
