// ---------------------------------------------------------------------------------------------
// InternalKey: real struct / enum / Ord impls extracted from src/key.rs + ghost order ik_cmp.
// ---------------------------------------------------------------------------------------------
//@const src/key.rs :: MAX_SEQUENCE_NUMBER
//@enum src/key.rs :: Operation derive: Clone Copy PartialEq Eq
//@struct src/key.rs :: InternalKey keep: user_key sequence_number operation

// ASSUMED (A-derive): derived PartialEq on the field-less enum Operation is structural equality.
impl PartialEqSpecImpl for Operation {
    open spec fn obeys_eq_spec() -> bool { true }
    open spec fn eq_spec(&self, other: &Self) -> bool { *self == *other }
}

// ASSUMED (A-derive): #[derive(Clone, Eq)] on InternalKey returns an equal value.
impl Clone for InternalKey {
    #[verifier::external_body]
    fn clone(&self) -> (r: Self)
        ensures r == *self
    { unimplemented!() }
}
impl Eq for InternalKey {}

/// Ghost view of an internal key.
pub struct GKey { pub user: Seq<u8>, pub seq: u64, pub op: Operation }

pub open spec fn gk(k: InternalKey) -> GKey {
    GKey { user: k.user_key@, seq: k.sequence_number, op: k.operation }
}

/// Ghost order on internal keys: user key ascending, then sequence number DESCENDING.
/// The operation tag does not take part (exactly the statement of C01's first mechanism).
pub open spec fn gk_cmp(a: GKey, b: GKey) -> int {
    let c = lex_cmp(a.user, b.user);
    if c != 0 { c }
    else if a.seq > b.seq { -1 }
    else if a.seq < b.seq { 1 }
    else { 0 }
}
pub open spec fn gk_lt(a: GKey, b: GKey) -> bool { gk_cmp(a, b) < 0 }
pub open spec fn gk_le(a: GKey, b: GKey) -> bool { gk_cmp(a, b) <= 0 }
pub open spec fn ik_cmp(a: InternalKey, b: InternalKey) -> int { gk_cmp(gk(a), gk(b)) }
pub open spec fn ik_lt(a: InternalKey, b: InternalKey) -> bool { ik_cmp(a, b) < 0 }
pub open spec fn ik_le(a: InternalKey, b: InternalKey) -> bool { ik_cmp(a, b) <= 0 }

pub proof fn lemma_gk_antisym(a: GKey, b: GKey)
    ensures gk_cmp(a, b) == -gk_cmp(b, a)
{
    lemma_lex_antisym(a.user, b.user);
}

pub proof fn lemma_gk_trans(a: GKey, b: GKey, c: GKey)
    requires gk_cmp(a, b) <= 0, gk_cmp(b, c) <= 0
    ensures gk_cmp(a, c) <= 0, (gk_cmp(a, b) < 0 || gk_cmp(b, c) < 0) ==> gk_cmp(a, c) < 0
{
    lemma_lex_trans(a.user, b.user, c.user);
    lemma_lex_antisym(a.user, b.user);
    lemma_lex_antisym(b.user, c.user);
    lemma_lex_antisym(a.user, c.user);
    lemma_lex_eq(a.user, b.user);
    lemma_lex_eq(b.user, c.user);
    lemma_lex_eq(a.user, c.user);
}

pub proof fn lemma_gk_eq(a: GKey, b: GKey)
    ensures (gk_cmp(a, b) == 0) <==> (a.user == b.user && a.seq == b.seq)
{
    lemma_lex_eq(a.user, b.user);
}

impl OrdSpecImpl for InternalKey {
    open spec fn obeys_cmp_spec() -> bool { true }
    open spec fn cmp_spec(&self, other: &Self) -> Ordering { int_to_ord(ik_cmp(*self, *other)) }
}
impl PartialOrdSpecImpl for InternalKey {
    open spec fn obeys_partial_cmp_spec() -> bool { true }
    open spec fn partial_cmp_spec(&self, other: &Self) -> Option<Ordering> {
        Some(int_to_ord(ik_cmp(*self, *other)))
    }
}
impl PartialEqSpecImpl for InternalKey {
    open spec fn obeys_eq_spec() -> bool { true }
    open spec fn eq_spec(&self, other: &Self) -> bool {
        self.user_key@ == other.user_key@ && self.sequence_number == other.sequence_number
            && self.operation == other.operation
    }
}

pub proof fn lemma_ik_antisym(a: InternalKey, b: InternalKey)
    ensures ik_cmp(a, b) == -ik_cmp(b, a)
{
    lemma_gk_antisym(gk(a), gk(b));
}

pub proof fn lemma_ik_range(a: InternalKey, b: InternalKey)
    ensures -1 <= ik_cmp(a, b) <= 1
{
    lemma_lex_range(a.user_key@, b.user_key@, 0);
}

/// a <= b <= c ==> a <= c; strict if either step is strict.
pub proof fn lemma_ik_trans(a: InternalKey, b: InternalKey, c: InternalKey)
    requires ik_cmp(a, b) <= 0, ik_cmp(b, c) <= 0
    ensures ik_cmp(a, c) <= 0, (ik_cmp(a, b) < 0 || ik_cmp(b, c) < 0) ==> ik_cmp(a, c) < 0
{
    lemma_gk_trans(gk(a), gk(b), gk(c));
}

pub proof fn lemma_ik_eq(a: InternalKey, b: InternalKey)
    ensures (ik_cmp(a, b) == 0) <==> (a.user_key@ == b.user_key@ && a.sequence_number == b.sequence_number)
{
    lemma_gk_eq(gk(a), gk(b));
}

//@impl src/key.rs :: impl InternalKey
//@fn new props: C01 C13
//@sig
    ensures r.user_key == user_key, r.sequence_number == sequence_number, r.operation == operation,
//@endfn
//@fn new_for_seeking props: C01 C03 C13
//@sig
    ensures r.user_key == user_key, r.sequence_number == sequence_number, r.operation == Operation::Put, // [seek-key]
//@endfn
//@fn get_user_key props: C01 C13
//@sig
    ensures r@ == self.user_key@,
//@endfn
//@fn get_user_key_as_vec props: C04
//@sig
    ensures *r == self.user_key,
//@endfn
//@fn get_operation props: C01 C13
//@sig
    ensures r == self.operation,
//@endfn
//@fn get_sequence_number props: C01 C03
//@sig
    ensures r == self.sequence_number,
//@endfn
//@endimpl

//@impl src/key.rs :: impl Ord for InternalKey
//@fn cmp props: C01 C04 C13
//@sig
//@body-start
        proof { axiom_bytes_obey_cmp(); lemma_lex_eq(self.user_key@, other.user_key@); }
        broadcast use group_bytes_order;
//@endfn
//@endimpl

//@impl src/key.rs :: impl PartialOrd for InternalKey
//@fn partial_cmp props: C01 C04 C13
//@sig
//@endfn
//@endimpl

//@impl src/key.rs :: impl PartialEq for InternalKey
//@fn eq props: C01
//@sig
//@body-start
        proof { axiom_bytes_obey_cmp(); lemma_lex_eq(self.user_key@, other.user_key@); }
        broadcast use group_bytes_order;
//@endfn
//@endimpl

pub proof fn lemma_ik_refl(a: InternalKey)
    ensures ik_cmp(a, a) == 0
{
    lemma_lex_eq(a.user_key@, a.user_key@);
}

/// The internal-key order refines the user-key order.
pub proof fn lemma_ik_user_order(a: InternalKey, b: InternalKey)
    ensures
        ik_lt(a, b) ==> lex_le(a.user_key@, b.user_key@),
        lex_lt(a.user_key@, b.user_key@) ==> ik_lt(a, b),
{
}
