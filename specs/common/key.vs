// ---------------------------------------------------------------------------------------------
// InternalKey: real struct / enum / Ord impls extracted from src/key.rs + ghost order ik_cmp.
// ---------------------------------------------------------------------------------------------
//@const src/key.rs :: MAX_SEQUENCE_NUMBER
//@enum src/key.rs :: Operation derive: Clone Copy PartialEq Eq
//@struct src/key.rs :: InternalKey keep: user_key sequence_number operation

// A-derive (assumed): derived PartialEq on the field-less enum Operation is structural equality.
impl PartialEqSpecImpl for Operation {
    open spec fn obeys_eq_spec() -> bool { true }
    open spec fn eq_spec(&self, other: &Self) -> bool { *self == *other }
}

// A-derive (assumed): #[derive(Clone, Eq)] on InternalKey.
impl Clone for InternalKey {
    #[verifier::external_body]
    fn clone(&self) -> (r: Self)
        ensures r == *self
    { unimplemented!() }
}
impl Eq for InternalKey {}

/// Ghost order on internal keys: user key ascending, then sequence number DESCENDING.
/// The operation tag does not take part (exactly the statement of C01's first mechanism).
pub open spec fn ik_cmp(a: InternalKey, b: InternalKey) -> int {
    let c = lex_cmp(a.user_key@, b.user_key@);
    if c != 0 { c }
    else if a.sequence_number > b.sequence_number { -1 }
    else if a.sequence_number < b.sequence_number { 1 }
    else { 0 }
}
pub open spec fn ik_lt(a: InternalKey, b: InternalKey) -> bool { ik_cmp(a, b) < 0 }
pub open spec fn ik_le(a: InternalKey, b: InternalKey) -> bool { ik_cmp(a, b) <= 0 }

impl OrdSpecImpl for InternalKey {
    open spec fn obeys_cmp_spec() -> bool { true }
    open spec fn cmp_spec(&self, other: &Self) -> Ordering { int_to_ord(ik_cmp(*self, *other)) }
}
impl PartialOrdSpecImpl for InternalKey {
    open spec fn obeys_partial_cmp_spec() -> bool { true }
    open spec fn partial_cmp_spec(&self, other: &Self) -> Option<Ordering> {
        Some(int_to_ord(ik_cmp(*self, *other)))
    }
}
impl PartialEqSpecImpl for InternalKey {
    open spec fn obeys_eq_spec() -> bool { true }
    open spec fn eq_spec(&self, other: &Self) -> bool {
        self.user_key@ == other.user_key@ && self.sequence_number == other.sequence_number
            && self.operation == other.operation
    }
}

pub proof fn lemma_ik_antisym(a: InternalKey, b: InternalKey)
    ensures ik_cmp(a, b) == -ik_cmp(b, a)
{
    lemma_lex_antisym(a.user_key@, b.user_key@);
}

pub proof fn lemma_ik_range(a: InternalKey, b: InternalKey)
    ensures -1 <= ik_cmp(a, b) <= 1
{
    lemma_lex_range(a.user_key@, b.user_key@, 0);
}

/// a <= b <= c ==> a <= c; strict if either step is strict.
pub proof fn lemma_ik_trans(a: InternalKey, b: InternalKey, c: InternalKey)
    requires ik_cmp(a, b) <= 0, ik_cmp(b, c) <= 0
    ensures ik_cmp(a, c) <= 0, (ik_cmp(a, b) < 0 || ik_cmp(b, c) < 0) ==> ik_cmp(a, c) < 0
{
    lemma_lex_trans(a.user_key@, b.user_key@, c.user_key@);
    lemma_lex_antisym(a.user_key@, b.user_key@);
    lemma_lex_antisym(b.user_key@, c.user_key@);
    lemma_lex_antisym(a.user_key@, c.user_key@);
    lemma_lex_eq(a.user_key@, b.user_key@);
    lemma_lex_eq(b.user_key@, c.user_key@);
    lemma_lex_eq(a.user_key@, c.user_key@);
}

pub proof fn lemma_ik_eq(a: InternalKey, b: InternalKey)
    ensures (ik_cmp(a, b) == 0) <==> (a.user_key@ == b.user_key@ && a.sequence_number == b.sequence_number)
{
    lemma_lex_eq(a.user_key@, b.user_key@);
}

//@impl src/key.rs :: impl Ord for InternalKey
//@fn cmp props: C01 C04 C13
//@sig
//@body-start
        proof { axiom_bytes_obey_cmp(); lemma_lex_eq(self.user_key@, other.user_key@); }
        broadcast use group_bytes_order;
//@endfn
//@endimpl

//@impl src/key.rs :: impl PartialOrd for InternalKey
//@fn partial_cmp props: C01 C04 C13
//@sig
//@endfn
//@endimpl

//@impl src/key.rs :: impl PartialEq for InternalKey
//@fn eq props: C01
//@sig
//@body-start
        proof { axiom_bytes_obey_cmp(); lemma_lex_eq(self.user_key@, other.user_key@); }
        broadcast use group_bytes_order;
//@endfn
//@endimpl
