// ---------------------------------------------------------------------------------------------
// Table::get (src/tables/table.rs) against the ghost table model.
// ---------------------------------------------------------------------------------------------
//@struct src/tables/block.rs :: BlockReader keep: block_entries
//@type src/tables/block.rs :: DataBlockReader
//@struct src/options.rs :: ReadOptions keep: fill_cache
//@struct src/tables/table.rs :: Table keep: index_block maybe_filter_block

//@impl src/tables/block.rs :: impl<K> BlockReader<K> where K: RainDbKeyType,
//@fn iter props: C13
//@sig
    ensures r.block_entries == self.block_entries, r.current_index == 0,
//@endfn
//@endimpl

/// Ghost model attached to an opened table (what the bytes of the file decode to).
pub uninterp spec fn tbl_model(t: &Table) -> TM;

pub open spec fn entries_match(es: Seq<BlockEntry<InternalKey>>, b: Seq<GEntry>) -> bool {
    es.len() == b.len() && forall|j: int| 0 <= j < es.len() ==> gk((#[trigger] es[j]).key) == b[j].k && es[j].value@ == b[j].v
}

pub open spec fn tbl_wf(t: &Table) -> bool {
    let m = tbl_model(t);
    let ix = (*t.index_block.block_entries)@;
    &&& tm_wf(m)
    &&& ix.len() == m.keys.len() && ix.len() <= usize::MAX / 2
    &&& forall|i: int| 0 <= i < ix.len() ==> gk((#[trigger] ix[i]).key) == m.keys[i] && ix[i].value@ == bh_bytes(&m.handles[i])
    // the table's filter has no false negative for the user keys of its own blocks (U07 + U12)
    &&& t.maybe_filter_block matches Some(fr) ==> fbr_wf(&fr) && forall|i: int, j: int| 0 <= i < m.blocks.len() && 0 <= j < m.blocks[i].len()
            ==> fbr_answer(&fr, m.handles[i].offset, #[trigger] m.blocks[i][j].k.user)
}

// ASSUMED (the link between the table MODEL and the file's bytes; its byte-level half is under
// contract: U42 `Table::get_block_reader` - cache hit, disk read + caching or disk read only all
// hand out a reader of a CRC-checked block of this table's file at the handle's offset - U09 the
// disk read, U30 the block codec): the block reader obtained for the handle of index entry i holds
// exactly the entries of data block i of the model.
impl Table {
    #[verifier::external_body]
    pub fn get_block_reader(&self, read_options: &ReadOptions, block_handle: &BlockHandle) -> (r: TableReadResult<Arc<DataBlockReader>>)
        ensures
            r matches Err(e) ==> !(e is KeyNotFound),
            r matches Ok(b) ==> (*b.block_entries)@.len() <= usize::MAX / 2
                && forall|i: int| 0 <= i < tbl_model(self).handles.len() && *block_handle == #[trigger] tbl_model(self).handles[i]
                    ==> entries_match((*b.block_entries)@, tbl_model(self).blocks[i]),
    { unimplemented!() }
}

/// The few facts of tm_wf that Table::get itself needs (tm_wf is opaque to keep queries small).
pub proof fn lemma_tm_shape_facts(m: TM)
    requires tm_wf(m)
    ensures
        m.keys.len() == m.blocks.len(), m.keys.len() == m.handles.len(),
        forall|i: int, j: int| 0 <= i < j < m.keys.len() ==> gk_lt(#[trigger] m.keys[i], #[trigger] m.keys[j]),
        forall|i: int, j: int, j2: int| 0 <= i < m.blocks.len() && 0 <= j < j2 < m.blocks[i].len()
            ==> gk_lt(#[trigger] m.blocks[i][j].k, #[trigger] m.blocks[i][j2].k),
{
    reveal(tm_wf);
}

//@include specs/common/table_get_order.vs

pub proof fn lemma_entries_sorted_from_model(es: Seq<BlockEntry<InternalKey>>, ks: Seq<GKey>)
    requires es.len() == ks.len(), forall|i: int| 0 <= i < es.len() ==> gk((#[trigger] es[i]).key) == ks[i],
        forall|i: int, j: int| 0 <= i < j < ks.len() ==> gk_lt(#[trigger] ks[i], #[trigger] ks[j])
    ensures entries_sorted(es)
{
    assert forall|i: int, j: int| 0 <= i < j < es.len() implies key_lt(&(#[trigger] es[i]).key, &(#[trigger] es[j]).key) by {
        assert(gk_lt(ks[i], ks[j]));
    }
}

//@impl src/tables/table.rs :: impl Table
//@fn get props: C13 C01 C03 C14
//@sig
    requires
        tbl_wf(self),
        key.user_key@.len() <= u32::MAX,
    ensures
        // C13: "the newest entry of that key at or below the bound - a value, a deletion, or not in this file"
        r matches Ok(Some(v)) ==> exists|i: int, j: int| tm_newest(tbl_model(self), key.user_key@, key.sequence_number, i, j)
            && tbl_model(self).blocks[i][j].k.op == Operation::Put && tbl_model(self).blocks[i][j].v =~= v@, // [value-is-newest-visible-put]
        r matches Ok(None) ==> exists|i: int, j: int| tm_newest(tbl_model(self), key.user_key@, key.sequence_number, i, j)
            && tbl_model(self).blocks[i][j].k.op == Operation::Delete, // [deleted-means-newest-visible-is-tombstone]
        r matches Err(ReadError::KeyNotFound) ==> forall|i: int, j: int| !tm_visible(tbl_model(self), key.user_key@, key.sequence_number, i, j), // [not-in-file-means-no-visible-entry]
//@body-start
        let ghost m = tbl_model(self);
        let ghost t = gk(*key);
        let ghost ix = (*self.index_block.block_entries)@;
        broadcast use lemma_cloned_u8;
        proof {
            lemma_internal_key_order_ok();
            lemma_tm_shape_facts(m);
            lemma_entries_sorted_from_model(ix, m.keys);
        }
//@after /index_block_iter.seek\(key\)\?;/
        let ghost i = index_block_iter.current_index as int;
        proof {
            assert(index_block_iter.it_len() == ix.len());
            assert forall|i1: int| 0 <= i1 < i implies gk_lt(#[trigger] m.keys[i1], t) by {
                assert(key_lt(&index_block_iter.it_key(i1), key));
            }
            if i < ix.len() { assert(!key_lt(&index_block_iter.it_key(i), key)); assert(!gk_lt(m.keys[i], t)); }
            else { lemma_tm_index_miss(m, t); }
        }
//@after /let block_handle = BlockHandle::try_from\(raw_handle\)\?;/
        proof {
            assert(raw_handle@ == bh_bytes(&m.handles[i]));
            assert(block_handle == m.handles[i]);
        }
//@before /let block_reader = self.get_block_reader\(read_options, &block_handle\)\?;/
        proof {
            // a negative filter answer was returned above; here the filter (if any) said "may match"
        }
//@after /let mut block_reader_iter = block_reader.iter\(\);/
        let ghost bes = (*block_reader.block_entries)@;
        proof {
            assert(entries_match(bes, m.blocks[i]));
            lemma_entries_sorted_from_model(bes, Seq::new(m.blocks[i].len(), |j: int| m.blocks[i][j].k));
        }
//@after /block_reader_iter.seek\(key\)\?;/
        let ghost j = block_reader_iter.current_index as int;
        proof {
            assert forall|j1: int| 0 <= j1 < j implies gk_lt(#[trigger] m.blocks[i][j1].k, t) by {
                assert(key_lt(&block_reader_iter.it_key(j1), key));
            }
            if j < bes.len() { assert(!key_lt(&block_reader_iter.it_key(j), key)); }
            lemma_tm_lookup(m, t, i, j);
            assert(bes.len() == m.blocks[i].len());
            if j >= bes.len() {
                assert(forall|i2: int, j2: int| !tm_visible(m, t.user, t.seq, i2, j2));
                assert(t.user == key.user_key@);
                assert(t.seq == key.sequence_number);
                assert(m == tbl_model(self));
                assert(forall|i2: int, j2: int| !tm_visible(tbl_model(self), key.user_key@, key.sequence_number, i2, j2));
            }
        }
//@before /if found_key.get_user_key\(\) != key.get_user_key\(\) \{/
                broadcast use group_bytes_order;
                proof {
                    axiom_bytes_obey_cmp();
                    assert(j < bes.len());
                    assert(*found_key == bes[j].key);
                    assert(gk(*found_key) == m.blocks[i][j].k);
                    assert(found_value@ == m.blocks[i][j].v);
                    if found_key.user_key@ == key.user_key@ { assert(tm_newest(m, key.user_key@, key.sequence_number, i, j)); }
                }
//@before /return Err\(ReadError::KeyNotFound\);/ nth=1
            proof {
                assert(i >= ix.len());
                assert(t.user == key.user_key@);
                assert(t.seq == key.sequence_number);
                assert(m == tbl_model(self));
                assert(forall|i2: int, j2: int| !tm_visible(m, t.user, t.seq, i2, j2));
            }
//@before /return Err\(ReadError::KeyNotFound\);/ nth=3
                    proof {
                        // the entry the block cursor stopped at belongs to another user key
                        assert(found_key.user_key@ != key.user_key@);
                        assert(m.blocks[i][j].k.user != t.user);
                        assert(t.user == key.user_key@ && t.seq == key.sequence_number && m == tbl_model(self));
                        assert(forall|i2: int, j2: int| !tm_visible(m, t.user, t.seq, i2, j2));
                    }
//@before /return Err\(ReadError::KeyNotFound\);/ nth=2
            proof {
                let fr = self.maybe_filter_block.unwrap();
                assert(!fbr_answer(&fr, m.handles[i].offset, key.user_key@)); // [filter-consulted-with-offset-of-the-block-read]
                assert forall|jj: int| 0 <= jj < m.blocks[i].len() implies (#[trigger] m.blocks[i][jj]).k.user != t.user by {
                    assert(fbr_answer(&fr, m.handles[i].offset, m.blocks[i][jj].k.user));
                }
                lemma_tm_block_without_user(m, t, i);
                assert(t.user == key.user_key@);
                assert(t.seq == key.sequence_number);
                assert(m == tbl_model(self));
                assert(forall|i2: int, j2: int| !tm_visible(m, t.user, t.seq, i2, j2));
            }
//@endfn
//@endimpl
