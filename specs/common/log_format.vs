// ---------------------------------------------------------------------------------------------
// Log file format: real constants / types from src/logs.rs + ghost description of the format.
// ---------------------------------------------------------------------------------------------
//@const src/logs.rs :: HEADER_LENGTH_BYTES
//@const src/logs.rs :: BLOCK_SIZE_BYTES
//@type src/logs.rs :: LogIOResult
//@enum src/logs.rs :: BlockType derive: Clone Copy
//@struct src/logs.rs :: BlockRecord

pub open spec fn bt_code(t: BlockType) -> u8 {
    match t { BlockType::Full => 0u8, BlockType::First => 1u8, BlockType::Middle => 2u8, BlockType::Last => 3u8 }
}

pub open spec fn zeros(n: int) -> Seq<u8> { Seq::new(if n >= 0 { n as nat } else { 0 }, |i: int| 0u8) }

/// One physical record (fragment): masked crc (4, LE) ++ length (2, LE) ++ type ++ payload.
pub open spec fn frag(t: BlockType, p: Seq<u8>) -> Seq<u8> {
    le_enc(spec_mask(spec_crc(p)) as nat, 4) + le_enc(p.len(), 2) + seq![bt_code(t)] + p
}

pub open spec fn frag_type(first: bool, last: bool) -> BlockType {
    if first && last { BlockType::Full } else if first { BlockType::First }
    else if last { BlockType::Last } else { BlockType::Middle }
}

pub open spec fn enc_rank(off: int) -> int {
    if BLOCK_SIZE_BYTES - off < HEADER_LENGTH_BYTES { 1 }
    else if BLOCK_SIZE_BYTES - off == HEADER_LENGTH_BYTES { 2 } else { 0 }
}

/// The bytes appended to a log whose current block offset is `off` when the (remaining) record
/// `data` is appended.  This mirrors the FORMAT (DESIGN U04), not the implementation.
pub closed spec fn enc(off: int, data: Seq<u8>, first: bool) -> Seq<u8>
    decreases data.len(), enc_rank(off)
{
    if off < 0 || off > BLOCK_SIZE_BYTES {
        Seq::<u8>::empty()
    } else if BLOCK_SIZE_BYTES - off < HEADER_LENGTH_BYTES {
        zeros(BLOCK_SIZE_BYTES - off) + enc(0, data, first)
    } else {
        let avail = BLOCK_SIZE_BYTES - off - HEADER_LENGTH_BYTES;
        let n = if data.len() < avail { data.len() as int } else { avail };
        let last = data.len() == n;
        let f = frag(frag_type(first, last), data.subrange(0, n));
        if last { f } else { f + enc(off + HEADER_LENGTH_BYTES + n, data.subrange(n, data.len() as int), false) }
    }
}

/// Block offset after those bytes.
pub closed spec fn enc_end(off: int, data: Seq<u8>, first: bool) -> int
    decreases data.len(), enc_rank(off)
{
    if off < 0 || off > BLOCK_SIZE_BYTES {
        off
    } else if BLOCK_SIZE_BYTES - off < HEADER_LENGTH_BYTES {
        enc_end(0, data, first)
    } else {
        let avail = BLOCK_SIZE_BYTES - off - HEADER_LENGTH_BYTES;
        let n = if data.len() < avail { data.len() as int } else { avail };
        let last = data.len() == n;
        if last { off + HEADER_LENGTH_BYTES + n }
        else { enc_end(off + HEADER_LENGTH_BYTES + n, data.subrange(n, data.len() as int), false) }
    }
}

/// One-step unfolding of enc / enc_end (the only facts the writer proof needs).
pub proof fn lemma_enc_unfold(off: int, data: Seq<u8>, first: bool)
    requires 0 <= off <= BLOCK_SIZE_BYTES
    ensures
        BLOCK_SIZE_BYTES - off < HEADER_LENGTH_BYTES ==> {
            &&& enc(off, data, first) == zeros(BLOCK_SIZE_BYTES - off) + enc(0, data, first)
            &&& enc_end(off, data, first) == enc_end(0, data, first)
        },
        BLOCK_SIZE_BYTES - off >= HEADER_LENGTH_BYTES ==> ({
            let avail = BLOCK_SIZE_BYTES - off - HEADER_LENGTH_BYTES;
            let n = if data.len() < avail { data.len() as int } else { avail };
            let last = data.len() == n;
            let f = frag(frag_type(first, last), data.subrange(0, n));
            &&& last ==> enc(off, data, first) == f && enc_end(off, data, first) == off + HEADER_LENGTH_BYTES + n
            &&& !last ==> enc(off, data, first) == f + enc(off + HEADER_LENGTH_BYTES + n, data.subrange(n, data.len() as int), false)
            &&& !last ==> enc_end(off, data, first) == enc_end(off + HEADER_LENGTH_BYTES + n, data.subrange(n, data.len() as int), false)
        }),
{
    reveal_with_fuel(enc, 1);
    reveal_with_fuel(enc_end, 1);
}

/// The end offset stays within a block and is congruent to (off + bytes emitted) mod block size.
pub proof fn lemma_enc_end(off: int, data: Seq<u8>, first: bool)
    requires 0 <= off <= BLOCK_SIZE_BYTES
    ensures
        HEADER_LENGTH_BYTES <= enc_end(off, data, first) <= BLOCK_SIZE_BYTES,
        (off + enc(off, data, first).len()) % (BLOCK_SIZE_BYTES as int) == enc_end(off, data, first) % (BLOCK_SIZE_BYTES as int),
        enc(off, data, first).len() >= HEADER_LENGTH_BYTES,
    decreases data.len(), enc_rank(off)
{
    lemma_enc_unfold(off, data, first);
    broadcast use group_le;
    if BLOCK_SIZE_BYTES - off < HEADER_LENGTH_BYTES {
        lemma_enc_end(0, data, first);
        assert(zeros(BLOCK_SIZE_BYTES - off).len() == BLOCK_SIZE_BYTES - off);
        let l = enc(0, data, first).len() as int;
        assert((off + (BLOCK_SIZE_BYTES - off) + l) % (BLOCK_SIZE_BYTES as int) == (0 + l) % (BLOCK_SIZE_BYTES as int)) by {
            vstd::arithmetic::div_mod::lemma_mod_multiples_vanish(1, l, BLOCK_SIZE_BYTES as int);
        }
    } else {
        let avail = BLOCK_SIZE_BYTES - off - HEADER_LENGTH_BYTES;
        let n = if data.len() < avail { data.len() as int } else { avail };
        let last = data.len() == n;
        let f = frag(frag_type(first, last), data.subrange(0, n));
        assert(f.len() == HEADER_LENGTH_BYTES + n);
        if !last {
            lemma_enc_end(off + HEADER_LENGTH_BYTES + n, data.subrange(n, data.len() as int), false);
        }
    }
}

/// A writer positioned at the block boundary (offset == block size) behaves like one at offset 0:
/// this is what makes `len % BLOCK_SIZE_BYTES` the right offset for a re-opened writer.
pub proof fn lemma_enc_at_block_end(data: Seq<u8>, first: bool)
    ensures
        enc(BLOCK_SIZE_BYTES as int, data, first) == enc(0, data, first),
        enc_end(BLOCK_SIZE_BYTES as int, data, first) == enc_end(0, data, first),
{
    lemma_enc_unfold(BLOCK_SIZE_BYTES as int, data, first);
    assert(zeros(0) + enc(0, data, first) =~= enc(0, data, first));
}
