// ---------------------------------------------------------------------------------------------
// BlockIter (src/tables/block.rs): cursor over the eagerly deserialised entries of a block.
// ---------------------------------------------------------------------------------------------
//@include specs/common/read_error.vs
//@struct src/tables/block.rs :: BlockEntry keep: key value
//@struct src/tables/block.rs :: BlockIter

/// Entries strictly sorted by the key order.
pub open spec fn entries_sorted<K: RainDbKeyType>(es: Seq<BlockEntry<K>>) -> bool {
    forall|i: int, j: int| 0 <= i < j < es.len() ==> key_lt(&(#[trigger] es[i]).key, &(#[trigger] es[j]).key)
}

/// In a sorted entry list everything at or before an entry smaller than the target is smaller.
pub proof fn lemma_sorted_lower<K: RainDbKeyType>(es: Seq<BlockEntry<K>>, target: &K, m: int)
    requires key_order_ok::<K>(), entries_sorted(es), 0 <= m < es.len(), key_lt(&es[m].key, target)
    ensures forall|i: int| 0 <= i <= m ==> key_lt(&(#[trigger] es[i]).key, target)
{
    assert forall|i: int| 0 <= i <= m implies key_lt(&(#[trigger] es[i]).key, target) by {
        if i < m { lemma_key_lt_trans(&es[i].key, &es[m].key, target); }
    }
}
pub proof fn lemma_sorted_upper<K: RainDbKeyType>(es: Seq<BlockEntry<K>>, target: &K, m: int)
    requires key_order_ok::<K>(), entries_sorted(es), 0 <= m < es.len(), !key_lt(&es[m].key, target)
    ensures forall|i: int| m <= i < es.len() ==> !key_lt(&(#[trigger] es[i]).key, target)
{
    assert forall|i: int| m <= i < es.len() implies !key_lt(&(#[trigger] es[i]).key, target) by {
        if i > m && key_lt(&es[i].key, target) {
            lemma_key_not_lt_trans(&es[m].key, target, &es[i].key);
            assert(key_lt(&es[m].key, &es[i].key));
        }
    }
}

//@impl src/tables/block.rs :: impl<K> RainDbIterator for BlockIter<K> where K: RainDbKeyType,
    open spec fn it_wf(&self) -> bool {
        key_order_ok::<K>() && entries_sorted((*self.block_entries)@) && (*self.block_entries)@.len() <= usize::MAX / 2
    }
    open spec fn it_len(&self) -> int { (*self.block_entries)@.len() as int }
    open spec fn it_key(&self, i: int) -> K { (*self.block_entries)@[i].key }
    open spec fn it_val(&self, i: int) -> Seq<u8> { (*self.block_entries)@[i].value@ }
    open spec fn it_idx(&self) -> int { self.current_index as int }
//@fn is_valid props: C04 C13
//@sig
//@endfn
//@fn seek props: C04 C13 C01
//@sig
    ensures r is Ok, final(self).block_entries == old(self).block_entries,
//@body-start
        let ghost es = (*self.block_entries)@;
//@loop 1
            invariant
                key_order_ok::<K>(), entries_sorted(es), es == (*self.block_entries)@,
                es == (*old(self).block_entries)@,
                left <= right <= es.len(), es.len() <= usize::MAX / 2,
                forall|i: int| 0 <= i < left ==> key_lt(&(#[trigger] es[i]).key, target), // [inv-left-part-smaller]
                forall|i: int| right <= i < es.len() ==> !key_lt(&(#[trigger] es[i]).key, target), // [inv-right-part-not-smaller]
            decreases right - left,
//@after /let mid_entry = &self.block_entries\[mid\];/
            proof {
                if key_lt(&es[mid as int].key, target) { lemma_sorted_lower(es, target, mid as int); }
                else { lemma_sorted_upper(es, target, mid as int); }
            }
//@endfn
//@fn seek_to_first props: C04 C13
//@sig
    ensures final(self).block_entries == old(self).block_entries,
//@endfn
//@fn seek_to_last props: C04 C13
//@sig
    ensures final(self).block_entries == old(self).block_entries,
//@endfn
//@fn next props: C04 C13
//@sig
    ensures final(self).block_entries == old(self).block_entries,
        final(self).current_index <= (*final(self).block_entries)@.len(), // [invalid-position-is-len]
//@endfn
//@fn prev props: C04 C13
//@sig
    ensures final(self).block_entries == old(self).block_entries,
        final(self).current_index <= (*final(self).block_entries)@.len(), // [invalid-position-is-len]
//@endfn
//@fn current props: C04 C13
//@sig
//@endfn
//@endimpl
