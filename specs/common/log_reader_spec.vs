// ---------------------------------------------------------------------------------------------
// Ghost reference reader for the log format (specification of LogReader::read_record).
// ---------------------------------------------------------------------------------------------
pub enum RdOutcome {
    /// a complete record and the file position just after its last fragment
    Record(Seq<u8>, int),
    /// end of log: no further complete record
    Eof,
}

pub open spec fn bt_of_code(c: u8) -> BlockType {
    if c == 0 { BlockType::Full } else if c == 1 { BlockType::First } else if c == 2 { BlockType::Middle } else { BlockType::Last }
}

/// Position of the next fragment header when the cursor is at `p` (skips the block trailer).
pub open spec fn hdr_pos(p: int) -> int {
    let off = p % (BLOCK_SIZE_BYTES as int);
    if BLOCK_SIZE_BYTES - off < HEADER_LENGTH_BYTES { p + (BLOCK_SIZE_BYTES - off) } else { p }
}

/// A complete physical record (header + payload) lies in `f` at `h`.
pub open spec fn phys_complete(f: Seq<u8>, h: int) -> bool {
    0 <= h && h + HEADER_LENGTH_BYTES <= f.len()
        && h + HEADER_LENGTH_BYTES + le_dec(f.subrange(h + 4, h + 6)) <= f.len()
}
pub open spec fn phys_len(f: Seq<u8>, h: int) -> int { le_dec(f.subrange(h + 4, h + 6)) as int }
pub open spec fn phys_payload(f: Seq<u8>, h: int) -> Seq<u8> {
    f.subrange(h + HEADER_LENGTH_BYTES, h + HEADER_LENGTH_BYTES + phys_len(f, h))
}
/// Integrity evidence of the physical record at `h`: known type code and matching masked CRC.
pub open spec fn phys_valid(f: Seq<u8>, h: int) -> bool {
    f[h + 6] <= 3 && spec_crc(phys_payload(f, h)) == spec_unmask(le_dec(f.subrange(h, h + 4)) as u32)
}

/// The reference reader: scans fragments from position `p` (block offset = p mod block size) with
/// `acc` = payload of the currently open First..Middle chain, if any.  A fragment that fails its
/// integrity check is skipped and closes the chain; a Full/First fragment discards an open chain;
/// Middle/Last without an open chain are ignored.
pub open spec fn rd(f: Seq<u8>, p: int, acc: Option<Seq<u8>>) -> RdOutcome
    decreases f.len() - p
{
    let h = hdr_pos(p);
    if p < 0 || !phys_complete(f, h) {
        RdOutcome::Eof
    } else {
        let q = h + HEADER_LENGTH_BYTES + phys_len(f, h);
        let pl = phys_payload(f, h);
        if !phys_valid(f, h) {
            rd(f, q, None)
        } else {
            match bt_of_code(f[h + 6]) {
                BlockType::Full => RdOutcome::Record(pl, q),
                BlockType::First => rd(f, q, Some(pl)),
                BlockType::Middle => rd(f, q, if acc is Some { Some(acc.unwrap() + pl) } else { None }),
                BlockType::Last => if acc is Some { RdOutcome::Record(acc.unwrap() + pl, q) } else { rd(f, q, None) },
            }
        }
    }
}

/// One `read_record` call that starts at `p` (open chain `acc`) passes over a complete fragment
/// that fails its integrity check (F12: a manifest reader must not shrug this off).
pub open spec fn rd_damaged(f: Seq<u8>, p: int, acc: Option<Seq<u8>>) -> bool
    decreases f.len() - p
{
    let h = hdr_pos(p);
    if p < 0 || !phys_complete(f, h) {
        false
    } else {
        let q = h + HEADER_LENGTH_BYTES + phys_len(f, h);
        let pl = phys_payload(f, h);
        if !phys_valid(f, h) {
            true
        } else {
            match bt_of_code(f[h + 6]) {
                BlockType::Full => false,
                BlockType::First => rd_damaged(f, q, Some(pl)),
                BlockType::Middle => rd_damaged(f, q, if acc is Some { Some(acc.unwrap() + pl) } else { None }),
                BlockType::Last => if acc is Some { false } else { rd_damaged(f, q, None) },
            }
        }
    }
}

/// Header position at which a scan from `p` finds no further complete fragment.  If it is before
/// the end of the file, the file ends in the middle of a fragment (a torn write).
pub open spec fn rd_end(f: Seq<u8>, p: int) -> int
    decreases f.len() - p
{
    let h = hdr_pos(p);
    if p < 0 || !phys_complete(f, h) { h } else { rd_end(f, h + HEADER_LENGTH_BYTES + phys_len(f, h)) }
}

pub proof fn lemma_hdr_pos(p: int)
    requires 0 <= p
    ensures p <= hdr_pos(p) < p + HEADER_LENGTH_BYTES,
{
}
