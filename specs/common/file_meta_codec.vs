// ---------------------------------------------------------------------------------------------
// Serialized form of a table file's metadata inside a manifest record
// (src/versioning/file_metadata.rs): varint(number) ++ varint(size) ++ lp(smallest) ++ lp(largest)
// where lp(k) = varint32(len) ++ key bytes.
// ---------------------------------------------------------------------------------------------
pub open spec fn lp_bytes(b: Seq<u8>) -> Seq<u8> { var_enc((b.len() as u32) as u64) + b }

pub open spec fn fm_bytes(number: u64, size: u64, smallest: InternalKey, largest: InternalKey) -> Seq<u8> {
    var_enc(number) + var_enc(size) + lp_bytes(ik_bytes(smallest)) + lp_bytes(ik_bytes(largest))
}

/// ghost decoder of one length-prefixed slice: Some((bytes, consumed))
pub open spec fn lp_dec(s: Seq<u8>) -> Option<(Seq<u8>, int)> {
    match var_dec(s) {
        Some(p) => if p.0 <= u32::MAX && p.1 + p.0 <= s.len() { Some((s.subrange(p.1, p.1 + p.0 as int), p.1 + p.0 as int)) } else { None },
        None => None,
    }
}

pub struct FmModel { pub number: u64, pub size: u64, pub smallest: GKey, pub largest: GKey }

/// ghost decoder of a file metadata record: Some((fields, consumed))
pub open spec fn fm_dec(s: Seq<u8>) -> Option<(FmModel, int)> {
    match var_dec(s) {
        None => None,
        Some(a) => match var_dec(s.subrange(a.1, s.len() as int)) {
            None => None,
            Some(b) => match lp_dec(s.subrange(a.1 + b.1, s.len() as int)) {
                None => None,
                Some(c) => match lp_dec(s.subrange(a.1 + b.1 + c.1, s.len() as int)) {
                    None => None,
                    Some(d) => if gk_decodable(c.0) && gk_decodable(d.0) {
                        Some((FmModel { number: a.0, size: b.0, smallest: gk_dec(c.0), largest: gk_dec(d.0) }, a.1 + b.1 + c.1 + d.1))
                    } else { None },
                },
            },
        },
    }
}

pub proof fn lemma_lp_dec_bytes(b: Seq<u8>, rest: Seq<u8>)
    requires b.len() <= u32::MAX
    ensures lp_dec(lp_bytes(b) + rest) == Some((b, lp_bytes(b).len() as int))
{
    broadcast use group_varint;
    let n = (b.len() as u32) as u64;
    let s = lp_bytes(b) + rest;
    assert(s =~= var_enc(n) + (b + rest));
    let l = var_enc(n).len() as int;
    assert(s.subrange(l, l + n as int) =~= b);
}

/// ROUND TRIP (C10 mechanism 3, C01 mechanism 3): decoding what was encoded gives back the
/// file number, the size and both keys, and consumes exactly the encoding.
pub proof fn lemma_fm_dec_bytes(number: u64, size: u64, smallest: InternalKey, largest: InternalKey, rest: Seq<u8>)
    requires ik_bytes(smallest).len() <= u32::MAX, ik_bytes(largest).len() <= u32::MAX
    ensures fm_dec(fm_bytes(number, size, smallest, largest) + rest)
        == Some((FmModel { number, size, smallest: gk(smallest), largest: gk(largest) }, fm_bytes(number, size, smallest, largest).len() as int))
{
    broadcast use group_varint;
    let ks = ik_bytes(smallest);
    let kl = ik_bytes(largest);
    let s = fm_bytes(number, size, smallest, largest) + rest;
    let r1 = var_enc(size) + lp_bytes(ks) + lp_bytes(kl) + rest;
    let r2 = lp_bytes(ks) + lp_bytes(kl) + rest;
    let r3 = lp_bytes(kl) + rest;
    assert(s =~= var_enc(number) + r1);
    let a1 = var_enc(number).len() as int;
    assert(s.subrange(a1, s.len() as int) =~= r1);
    assert(r1 =~= var_enc(size) + r2);
    let b1 = var_enc(size).len() as int;
    assert(r1.subrange(b1, r1.len() as int) =~= r2);
    assert(s.subrange(a1 + b1, s.len() as int) =~= r2);
    assert(r2 =~= lp_bytes(ks) + r3);
    lemma_lp_dec_bytes(ks, r3);
    let c1 = lp_bytes(ks).len() as int;
    assert(r2.subrange(c1, r2.len() as int) =~= r3);
    assert(s.subrange(a1 + b1 + c1, s.len() as int) =~= r3);
    lemma_lp_dec_bytes(kl, rest);
    lemma_gk_dec_bytes(gk(smallest));
    lemma_gk_dec_bytes(gk(largest));
}
