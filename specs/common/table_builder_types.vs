// ---------------------------------------------------------------------------------------------
// Stand-ins used by the TableBuilder unit.
// ---------------------------------------------------------------------------------------------
// opaque stand-in for options::DbOptions (only max_block_size() is read)
pub struct DbOptions { pub max_block_size: usize }
impl DbOptions {
    #[verifier::external_body]
    pub fn max_block_size(&self) -> (r: usize) ensures r == self.max_block_size { unimplemented!() }
}

// ASSUMED (contract of BlockBuilder, src/tables/block_builder.rs - the prefix-compression codec
// is not under contract): a builder is the list of entries added since the last reset.
pub struct BlockBuilder<K> { pub entries: Ghost<Seq<(K, Seq<u8>)>> }
impl<K> BlockBuilder<K> {
    pub open spec fn view(&self) -> Seq<(K, Seq<u8>)> { self.entries@ }
    #[verifier::external_body]
    pub fn is_empty(&self) -> (r: bool) ensures r == (self@.len() == 0) { unimplemented!() }
    #[verifier::external_body]
    pub fn approximate_size(&self) -> (r: usize) { unimplemented!() }
    #[verifier::external_body]
    pub fn add_entry(&mut self, key: std::rc::Rc<K>, value: &[u8])
        ensures final(self)@ == old(self)@.push((*key, value@))
    { unimplemented!() }
    #[verifier::external_body]
    pub fn finalize(&mut self) -> (r: Vec<u8>) ensures final(self)@ == old(self)@ { unimplemented!() }
    #[verifier::external_body]
    pub fn reset(&mut self) ensures final(self)@.len() == 0 { unimplemented!() }
}
