// ---------------------------------------------------------------------------------------------
// BinarySeparable (src/utils/bytes.rs, src/key.rs): index-key shortening used by the table builder.
// ---------------------------------------------------------------------------------------------
//@item src/utils/bytes.rs :: trait BinarySeparable

/// `a` is a proper prefix-extension relation helper: common prefix of length n.
pub open spec fn common_prefix(a: Seq<u8>, b: Seq<u8>, n: int) -> bool {
    0 <= n <= a.len() && n <= b.len() && forall|j: int| 0 <= j < n ==> a[j] == b[j]
}

pub proof fn lemma_lex_by_first_diff(a: Seq<u8>, b: Seq<u8>, n: int)
    requires common_prefix(a, b, n)
    ensures
        n < a.len() && n < b.len() && a[n] < b[n] ==> lex_lt(a, b),
        n < a.len() && n < b.len() && a[n] > b[n] ==> lex_lt(b, a),
        n == a.len() && n < b.len() ==> lex_lt(a, b),
        n == a.len() && n == b.len() ==> lex_cmp(a, b) == 0,
        n == b.len() && n < a.len() ==> lex_lt(b, a),
{
    lemma_lex_from_first_diff(a, b, 0, n);
    lemma_lex_antisym(a, b);
}

//@impl src/utils/bytes.rs :: impl BinarySeparable for &[u8]
//@fn find_shortest_separator props: C13
//@sig
    ensures
        lex_lt(smaller@, greater@) ==> lex_le(smaller@, r@) && lex_lt(r@, greater@), // [sep-between]
        !lex_lt(smaller@, greater@) ==> r@ == smaller@, // [sep-misordered-identity]
        r@.len() <= smaller@.len(), // [sep-not-longer]
        r@ == smaller@ || (r@.len() <= smaller@.len() && lex_lt(smaller@, r@)), // [sep-shape]
//@body-start
        broadcast use group_bytes_order, lemma_cloned_u8;
        proof { axiom_bytes_obey_cmp(); lemma_lex_eq(smaller@, smaller@); }
//@loop 1
            invariant
                min_prefix_length <= smaller@.len(), min_prefix_length <= greater@.len(), min_prefix_length == smaller@.len() || min_prefix_length == greater@.len(),
                diff_idx <= min_prefix_length,
                common_prefix(smaller@, greater@, diff_idx as int),
            decreases min_prefix_length - diff_idx,
//@after /^        \}$/ nth=1
        proof {
            lemma_lex_by_first_diff(smaller@, greater@, diff_idx as int);
        }
//@after /let mut separator = smaller/
            let ghost sep0 = separator@;
            proof { assert(sep0 =~= smaller@.subrange(0, diff_idx as int + 1)); }
//@after /separator\[diff_idx\] \+= 1;/
            proof {
                assert(common_prefix(separator@, greater@, diff_idx as int));
                assert(common_prefix(smaller@, separator@, diff_idx as int));
                lemma_lex_by_first_diff(separator@, greater@, diff_idx as int);
                lemma_lex_by_first_diff(smaller@, separator@, diff_idx as int);
            }
//@endfn

//@fn find_shortest_successor props: C13
//@sig
    ensures
        lex_le(value@, r@), // [succ-not-smaller]
        r@.len() <= value@.len(), // [succ-not-longer]
        r@ == value@ || (r@.len() < value@.len() && lex_lt(value@, r@)) || (r@.len() == value@.len() && lex_lt(value@, r@)), // [succ-shape]
//@loop 1 iter=it
            invariant
                successor@.len() == it.index@,
                it.index@ <= value@.len(),
                common_prefix(successor@, value@, it.index@ as int),
//@loop-start 1
            let ghost idx = it.index@ as int;
//@before /return successor;/
                proof {
                    assert(common_prefix(value@, successor@, idx));
                    lemma_lex_by_first_diff(value@, successor@, idx);
                }
//@before /^        successor$/
        proof {
            assert(successor@ =~= value@);
            lemma_lex_eq(value@, successor@);
        }
//@endfn
//@endimpl

/// Index-key shape (what Table::get relies on, DESIGN U03 [shape]): the separator decodes either
/// to `a` itself or to (u, MAX_SEQUENCE_NUMBER, Put) with a.user < u, and u < b.user when bounded.
pub open spec fn sep_shape(a: GKey, r: GKey, b: Option<GKey>) -> bool {
    r == a || (r.seq == MAX_SEQUENCE_NUMBER && r.op == Operation::Put && lex_lt(a.user, r.user)
        && (b matches Some(bb) ==> lex_lt(r.user, bb.user)))
}

//@impl src/key.rs :: impl BinarySeparable for &InternalKey
//@fn find_shortest_separator props: C13
//@sig
    ensures
        gk_decodable(r@), // [sep-decodes]
        ik_lt(*smaller, *greater) ==> gk_le(gk(*smaller), gk_dec(r@)) && gk_lt(gk_dec(r@), gk(*greater)), // [sep-between]
        sep_shape(gk(*smaller), gk_dec(r@), Some(gk(*greater))), // [sep-shape]
//@body-start
        broadcast use group_bytes_order;
        proof {
            axiom_bytes_obey_cmp();
            lemma_gk_dec_bytes(gk(*smaller));
            lemma_ik_refl(*smaller);
            lemma_lex_antisym(smaller.user_key@, greater.user_key@);
        }
//@after /let full_separator = InternalKey::new_for_seeking/
            proof {
                lemma_gk_dec_bytes(gk(full_separator));
                lemma_lex_antisym(smaller.user_key@, full_separator.user_key@);
                lemma_lex_antisym(full_separator.user_key@, greater.user_key@);
            }
//@endfn
//@fn find_shortest_successor props: C13
//@sig
    ensures
        gk_decodable(r@), // [succ-decodes]
        gk_le(gk(*value), gk_dec(r@)), // [succ-not-smaller]
        sep_shape(gk(*value), gk_dec(r@), None), // [succ-shape]
//@body-start
        broadcast use group_bytes_order;
        proof {
            axiom_bytes_obey_cmp();
            lemma_gk_dec_bytes(gk(*value));
            lemma_ik_refl(*value);
        }
//@after /let full_successor = InternalKey::new_for_seeking/
            proof {
                lemma_gk_dec_bytes(gk(full_successor));
                lemma_lex_antisym(value.user_key@, full_successor.user_key@);
            }
//@endfn
//@endimpl
