// ---------------------------------------------------------------------------------------------
// Ghost vocabulary for U24 (MergingIterator / CachingIterator): entry lists and split points,
// directly over the internal-key order `ik_cmp` (user key ascending, sequence number descending).
// ---------------------------------------------------------------------------------------------
pub type ES = Seq<(InternalKey, Seq<u8>)>;
/// strictly ascending by the internal-key order
pub open spec fn es_sorted(es: ES) -> bool {
    forall|i: int, j: int| 0 <= i < j < es.len() ==> ik_lt((#[trigger] es[i]).0, (#[trigger] es[j]).0)
}
/// every entry before position p is less than k and every entry from p on is not
pub open spec fn split_at(es: ES, p: int, k: InternalKey) -> bool {
    forall|a: int| 0 <= a < es.len() ==> (a < p ==> ik_lt((#[trigger] es[a]).0, k)) && (a >= p ==> !ik_lt(es[a].0, k))
}
/// every entry up to and including position p is not greater than k and every later entry is
pub open spec fn split_after(es: ES, p: int, k: InternalKey) -> bool {
    forall|a: int| 0 <= a < es.len() ==> (a <= p ==> !ik_lt(k, (#[trigger] es[a]).0)) && (a > p ==> ik_lt(k, es[a].0))
}
/// a < b <= c  ==>  a < c
pub proof fn lemma_ik_lt_le(a: InternalKey, b: InternalKey, c: InternalKey)
    requires ik_lt(a, b), !ik_lt(c, b)
    ensures ik_lt(a, c)
{ lemma_ik_antisym(c, b); lemma_ik_trans(a, b, c); }
/// a <= b < c  ==>  a < c
pub proof fn lemma_ik_le_lt(a: InternalKey, b: InternalKey, c: InternalKey)
    requires !ik_lt(b, a), ik_lt(b, c)
    ensures ik_lt(a, c)
{ lemma_ik_antisym(b, a); lemma_ik_trans(a, b, c); }
/// a <= b <= c  ==>  a <= c
pub proof fn lemma_ik_le_le(a: InternalKey, b: InternalKey, c: InternalKey)
    requires !ik_lt(b, a), !ik_lt(c, b)
    ensures !ik_lt(c, a)
{ lemma_ik_antisym(b, a); lemma_ik_antisym(c, b); lemma_ik_trans(a, b, c); lemma_ik_antisym(c, a); }
pub proof fn lemma_ik_lt_lt(a: InternalKey, b: InternalKey, c: InternalKey)
    requires ik_lt(a, b), ik_lt(b, c)
    ensures ik_lt(a, c)
{ lemma_ik_trans(a, b, c); }
pub proof fn lemma_ik_asym(a: InternalKey, b: InternalKey)
    requires ik_lt(a, b)
    ensures !ik_lt(b, a)
{ lemma_ik_antisym(a, b); }
