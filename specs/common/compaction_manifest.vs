// ---------------------------------------------------------------------------------------------
// CompactionManifest (src/compaction/manifest.rs): the base-level test used when deciding
// whether a tombstone may be dropped.  Shared by U17 and U29.
// ---------------------------------------------------------------------------------------------
//@struct src/compaction/manifest.rs :: CompactionManifest keep: level maybe_input_version input_files base_level_pointers

pub open spec fn cm_version(cm: &CompactionManifest) -> Version { cm.maybe_input_version.unwrap().view().element }

/// Precondition of the base-level test: deeper levels are sorted and disjoint, and the
/// per-level cursors only skipped files that end before the key (keys arrive in ascending order).
pub open spec fn base_level_pre(cm: &CompactionManifest, u: Seq<u8>) -> bool {
    &&& cm.maybe_input_version.is_some()
    &&& cm.level + 2 <= usize::MAX
    &&& forall|l: int| cm.level + 2 <= l < MAX_NUM_LEVELS ==> {
            &&& level_sorted_disjoint(#[trigger] cm_version(cm).files[l]@)
            &&& cm.base_level_pointers[l] <= cm_version(cm).files[l]@.len()
            &&& forall|i: int| 0 <= i < cm.base_level_pointers[l] ==> lex_lt(fm_large_user(&*#[trigger] cm_version(cm).files[l]@[i]), u)
        }
}

pub proof fn lemma_level_no_cover_after(fs: Seq<Arc<FileMetadata>>, p: int, u: Seq<u8>)
    requires level_sorted_disjoint(fs), 0 <= p < fs.len(), lex_lt(u, fm_small_user(&*fs[p]))
    ensures forall|j: int| p <= j < fs.len() ==> !file_covers_user(&*#[trigger] fs[j], u)
{
    assert forall|j: int| p <= j < fs.len() implies !file_covers_user(&*#[trigger] fs[j], u) by {
        lemma_lex_antisym(u, fm_small_user(&*fs[j]));
        if j > p {
            lemma_level_users(fs, p, j);
            lemma_lex_trans(u, fm_small_user(&*fs[p]), fm_large_user(&*fs[p]));
            lemma_lex_trans(u, fm_large_user(&*fs[p]), fm_small_user(&*fs[j]));
        }
    }
}

//@impl src/compaction/manifest.rs :: impl CompactionManifest
//@fn level
//@sig
    ensures r == self.level,
//@endfn
//@fn is_base_level_for_key props: C07 C01 C03
//@sig
    requires
        base_level_pre(old(self), key.user_key@),
    ensures
        // C07 mechanism 2: a tombstone may only be dropped when no deeper level can hold the key
        r ==> forall|l: int, i: int| old(self).level + 2 <= l < MAX_NUM_LEVELS && 0 <= i < cm_version(old(self)).files[l]@.len()
            ==> !file_covers_user(&*#[trigger] cm_version(old(self)).files[l]@[i], key.user_key@), // [base-level-means-no-deeper-file-covers-the-key]
        !r ==> exists|l: int, i: int| old(self).level + 2 <= l < MAX_NUM_LEVELS && 0 <= i < cm_version(old(self)).files[l]@.len()
            && file_covers_user(&*#[trigger] cm_version(old(self)).files[l]@[i], key.user_key@), // [not-base-level-has-a-witness]
        final(self).maybe_input_version == old(self).maybe_input_version, final(self).level == old(self).level,
        base_level_pre(final(self), key.user_key@), // [cursors-stay-valid]
//@body-start
        broadcast use group_bytes_order;
        proof { axiom_bytes_obey_cmp(); }
        let ghost u = key.user_key@;
        let ghost ver = cm_version(self);
        let ghost lvl = self.level as int;
//@loop 1 iter=it
            invariant
                u == key.user_key@, ver == cm_version(self), ver == cm_version(old(self)), lvl == self.level, lvl == old(self).level,
                self.maybe_input_version == old(self).maybe_input_version,
                *input_version == ver, user_key@ == u,
                base_level_pre(self, u),
                forall|l: int, i: int| lvl + 2 <= l < lvl + 2 + it.index@ && 0 <= i < ver.files[l]@.len()
                    ==> !file_covers_user(&*#[trigger] ver.files[l]@[i], u), // [inv-earlier-levels-do-not-cover]
//@loop-start 1
            broadcast use group_bytes_order;
            proof { axiom_bytes_obey_cmp(); }
            let ghost cur = lvl + 2 + it.index@;
//@before /while self.base_level_pointers\[level\] < level_files.len\(\)/
            proof {
                assert forall|i: int| 0 <= i < self.base_level_pointers[cur] implies !file_covers_user(&*#[trigger] ver.files[cur]@[i], u) by {
                    lemma_lex_antisym(u, fm_large_user(&*ver.files[cur]@[i]));
                }
            }
//@loop 2
                invariant
                    u == key.user_key@, ver == cm_version(self), ver == cm_version(old(self)), lvl == self.level, lvl == old(self).level,
                    self.maybe_input_version == old(self).maybe_input_version,
                    *input_version == ver, user_key@ == u, level == cur, lvl + 2 <= cur < MAX_NUM_LEVELS,
                    *level_files == ver.files[cur], 
                    base_level_pre(self, u),
                    forall|l: int, i: int| lvl + 2 <= l < cur && 0 <= i < ver.files[l]@.len()
                        ==> !file_covers_user(&*#[trigger] ver.files[l]@[i], u),
                    forall|i: int| 0 <= i < self.base_level_pointers[cur] ==> !file_covers_user(&*#[trigger] ver.files[cur]@[i], u), // [inv-skipped-files-do-not-cover]
                ensures
                    forall|i: int| 0 <= i < ver.files[cur]@.len() ==> !file_covers_user(&*#[trigger] ver.files[cur]@[i], u), // [inv-this-level-does-not-cover]
                decreases ver.files[cur]@.len() - self.base_level_pointers[cur],
//@loop-start 2
                broadcast use group_bytes_order;
                proof { axiom_bytes_obey_cmp(); }
                let ghost p = self.base_level_pointers[cur] as int;
                proof {
                    let f = ver.files[cur]@[p];
                    lemma_lex_antisym(u, fm_large_user(&*f));
                    lemma_lex_antisym(u, fm_small_user(&*f));
                    if lex_lt(u, fm_small_user(&*f)) { lemma_level_no_cover_after(ver.files[cur]@, p, u); }
                    assert forall|i: int| 0 <= i < p implies !file_covers_user(&*#[trigger] ver.files[cur]@[i], u) by {
                        lemma_lex_antisym(u, fm_large_user(&*ver.files[cur]@[i]));
                    }
                }
//@endfn
//@endimpl

