// ---------------------------------------------------------------------------------------------
// Filter block builder / reader (src/tables/filter_block_builder.rs, src/tables/filter_block.rs)
// ---------------------------------------------------------------------------------------------
//@const src/config.rs :: SIZE_OF_U32_BYTES
//@const src/tables/filter_block_builder.rs :: FILTER_RANGE_SIZE_EXPONENT
//@const src/tables/filter_block_builder.rs :: FILTER_RANGE_SIZE_BYTES
//@struct src/tables/filter_block_builder.rs :: FilterBlockBuilder

/// `f` answers "may match" for every key of `ks` (an empty key set gives the empty filter).
pub open spec fn filter_covers(p: &Arc<dyn FilterPolicy>, f: Seq<u8>, ks: Seq<Vec<u8>>) -> bool {
    if ks.len() == 0 { f.len() == 0 } else { forall|i: int| 0 <= i < ks.len() ==> p.fp_matches(f, (#[trigger] ks[i])@) }
}

pub open spec fn fbb_wf(b: &FilterBlockBuilder) -> bool {
    &&& b.filter_policy.fp_wf()
    &&& b.keys@.len() <= b.filter_policy.fp_max_keys()
    &&& forall|i: int| 0 <= i < b.keys@.len() ==> (#[trigger] b.keys@[i])@.len() <= u32::MAX
}

pub open spec fn concat_filters(fs: Seq<Vec<u8>>, n: int) -> Seq<u8>
    decreases n
{
    if n <= 0 { Seq::<u8>::empty() } else { concat_filters(fs, n - 1) + fs[n - 1]@ }
}
pub open spec fn offsets_enc(fs: Seq<Vec<u8>>, n: int) -> Seq<u8>
    decreases n
{
    if n <= 0 { Seq::<u8>::empty() } else { offsets_enc(fs, n - 1) + le_enc(concat_filters(fs, n - 1).len(), 4) }
}

/// The range size is a positive power of two given by the exponent constant.
pub proof fn lemma_filter_range_size()
    ensures FILTER_RANGE_SIZE_BYTES > 0, FILTER_RANGE_SIZE_BYTES == 1u32 << FILTER_RANGE_SIZE_EXPONENT, FILTER_RANGE_SIZE_EXPONENT < 32,
{
    assert(FILTER_RANGE_SIZE_EXPONENT < 32);
    let e = FILTER_RANGE_SIZE_EXPONENT;
    assert((1u32 << e) > 0) by (bit_vector) requires e < 32;
}

//@impl src/tables/filter_block_builder.rs :: impl FilterBlockBuilder
//@fn new props: C14
//@sig
    ensures r.filter_policy == filter_policy, r.keys@.len() == 0, r.filters@.len() == 0,
//@endfn

//@fn add_key props: C14
//@sig
    ensures
        final(self).keys@ == old(self).keys@.push(key), // [key-is-pending]
        final(self).filters@ == old(self).filters@, final(self).filter_policy == old(self).filter_policy,
//@endfn

//@fn generate_filter props: C14
//@sig
    requires fbb_wf(old(self)),
    ensures
        final(self).filter_policy == old(self).filter_policy,
        final(self).keys@.len() == 0, // [pending-flushed]
        final(self).filters@.len() == old(self).filters@.len() + 1,
        forall|i: int| 0 <= i < old(self).filters@.len() ==> final(self).filters@[i] == old(self).filters@[i], // [earlier-filters-kept]
        filter_covers(&old(self).filter_policy, final(self).filters@[old(self).filters@.len() as int]@, old(self).keys@), // [new-filter-covers-pending]
        final(self).filters@[old(self).filters@.len() as int]@.len() <= 0x1000_0100,
        fbb_wf(final(self)),
//@endfn

//@fn notify_new_data_block props: C14
//@sig
    requires fbb_wf(old(self)),
    ensures
        final(self).filter_policy == old(self).filter_policy,
        fbb_wf(final(self)),
        // builder and reader agree on offset >> 11:
        block_offset / (FILTER_RANGE_SIZE_BYTES as usize) <= old(self).filters@.len() ==> final(self).filters@ == old(self).filters@ && final(self).keys@ == old(self).keys@, // [no-new-filter-within-range]
        // (sizes: at most one non-empty filter is added)
        concat_filters(final(self).filters@, final(self).filters@.len() as int).len()
            <= concat_filters(old(self).filters@, old(self).filters@.len() as int).len() + 0x1000_0100,
        block_offset / (FILTER_RANGE_SIZE_BYTES as usize) > old(self).filters@.len() ==> {
            &&& final(self).filters@.len() == block_offset / (FILTER_RANGE_SIZE_BYTES as usize) // [one-filter-per-2KiB-range]
            &&& forall|i: int| 0 <= i < old(self).filters@.len() ==> final(self).filters@[i] == old(self).filters@[i]
            &&& filter_covers(&old(self).filter_policy, final(self).filters@[old(self).filters@.len() as int]@, old(self).keys@) // [first-new-filter-covers-pending]
            &&& forall|i: int| old(self).filters@.len() < i < final(self).filters@.len() ==> (#[trigger] final(self).filters@[i])@.len() == 0
            &&& final(self).keys@.len() == 0
        },
//@body-start
        let ghost f0 = self.filters@;
        let ghost k0 = self.keys@;
        let ghost pol = self.filter_policy;
        proof { lemma_filter_range_size(); }
//@loop 1
            invariant
                filter_index == block_offset / (FILTER_RANGE_SIZE_BYTES as usize),
                f0 == old(self).filters@, k0 == old(self).keys@, pol == old(self).filter_policy,
                self.filter_policy == pol,
                fbb_wf(self),
                self.filters@.len() >= f0.len(),
                self.filters@.len() == f0.len() ==> self.filters@ == f0 && self.keys@ == k0,
                concat_filters(self.filters@, self.filters@.len() as int).len() <= concat_filters(f0, f0.len() as int).len() + 0x1000_0100,
                self.filters@.len() > f0.len() ==> concat_filters(self.filters@, self.filters@.len() as int).len()
                    == concat_filters(f0, f0.len() as int).len() + self.filters@[f0.len() as int]@.len() && self.filters@[f0.len() as int]@.len() <= 0x1000_0100,
                self.filters@.len() > f0.len() ==> {
                    &&& self.filters@.len() <= filter_index
                    &&& forall|i: int| 0 <= i < f0.len() ==> self.filters@[i] == f0[i]
                    &&& filter_covers(&pol, self.filters@[f0.len() as int]@, k0)
                    &&& forall|i: int| f0.len() < i < self.filters@.len() ==> (#[trigger] self.filters@[i])@.len() == 0
                    &&& self.keys@.len() == 0
                },
            decreases filter_index - self.filters@.len(),
//@loop-start 1
            let ghost fs1 = self.filters@;
            let ghost n1 = fs1.len() as int;
//@loop-end 1
            proof {
                let fs2 = self.filters@;
                lemma_concat_filters_prefix(fs1, fs2, n1);
                assert(concat_filters(fs2, n1 + 1) == concat_filters(fs2, n1) + fs2[n1]@);
            }
//@endfn
//@endimpl

//@impl src/tables/filter_block_builder.rs :: impl FilterBlockBuilder
//@fn finalize props: C14
//@sig
    requires
        fbb_wf(old(self)),
        concat_filters(old(self).filters@, old(self).filters@.len() as int).len() <= 0x4000_0000,
        old(self).filters@.len() < 0x1000_0000,
    ensures
        final(self).filter_policy == old(self).filter_policy,
        final(self).keys@.len() == 0,
        // pending keys are flushed into one more filter
        old(self).keys@.len() == 0 ==> final(self).filters@ == old(self).filters@,
        old(self).keys@.len() > 0 ==> final(self).filters@.len() == old(self).filters@.len() + 1
            && (forall|i: int| 0 <= i < old(self).filters@.len() ==> final(self).filters@[i] == old(self).filters@[i])
            && filter_covers(&old(self).filter_policy, final(self).filters@[old(self).filters@.len() as int]@, old(self).keys@), // [pending-keys-get-a-filter]
        // layout: filters ++ le4 offsets ++ le4(offset of offsets) ++ [exponent]
        r@ == concat_filters(final(self).filters@, final(self).filters@.len() as int)
            + offsets_enc(final(self).filters@, final(self).filters@.len() as int)
            + le_enc(concat_filters(final(self).filters@, final(self).filters@.len() as int).len(), 4)
            + seq![FILTER_RANGE_SIZE_EXPONENT], // [filter-block-layout]
        // (size: the old filters, at most one new filter, one offset word per filter, the trailer)
        r@.len() <= concat_filters(old(self).filters@, old(self).filters@.len() as int).len() + 0x1000_0100 + 4 * (old(self).filters@.len() + 1) + 5,
//@before /let mut results: Vec<u8> = vec!\[\];/
        proof {
            let n0 = old(self).filters@.len() as int;
            lemma_concat_filters_prefix(old(self).filters@, self.filters@, n0);
            lemma_offsets_enc_len(self.filters@, self.filters@.len() as int);
            broadcast use group_le;
        }
//@loop 1 iter=it
            invariant
                it.index@ <= self.filters@.len(),
                self.filters@.len() < 0x1000_0001,
                concat_filters(self.filters@, self.filters@.len() as int).len() < 0x8000_0000,
                results@ == concat_filters(self.filters@, it.index@ as int),
                serialized_offsets@ == offsets_enc(self.filters@, it.index@ as int),
                curr_filter_offset as int == results@.len(),
//@loop-start 1
            proof {
                lemma_concat_filters_mono(self.filters@, it.index@ as int + 1, self.filters@.len() as int);
                broadcast use group_le;
            }
//@endfn
//@endimpl

pub proof fn lemma_offsets_enc_len(fs: Seq<Vec<u8>>, n: int)
    requires 0 <= n <= fs.len()
    ensures offsets_enc(fs, n).len() == 4 * n
    decreases n
{
    broadcast use group_le;
    if n > 0 { lemma_offsets_enc_len(fs, n - 1); }
}
pub proof fn lemma_concat_filters_prefix(a: Seq<Vec<u8>>, b: Seq<Vec<u8>>, n: int)
    requires 0 <= n <= a.len(), n <= b.len(), forall|i: int| 0 <= i < n ==> a[i] == b[i]
    ensures concat_filters(a, n) == concat_filters(b, n), offsets_enc(a, n) == offsets_enc(b, n)
    decreases n
{
    if n > 0 { lemma_concat_filters_prefix(a, b, n - 1); }
}

pub proof fn lemma_concat_filters_mono(fs: Seq<Vec<u8>>, a: int, b: int)
    requires 0 <= a <= b <= fs.len()
    ensures concat_filters(fs, a).len() <= concat_filters(fs, b).len()
    decreases b - a
{
    if a < b { lemma_concat_filters_mono(fs, a, b - 1); }
}

// ---- reader --------------------------------------------------------------------------------
//@struct src/tables/filter_block.rs :: FilterBlockReader

pub open spec fn fbr_wf(fr: &FilterBlockReader) -> bool {
    &&& fr.encoded_range_size_exponent < 64
    &&& fr.filter_policy.fp_wf()
    &&& forall|i: int| 0 <= i < fr.filters@.len() ==> (#[trigger] fr.filters@[i])@.len() <= 0x2000_0000
}

/// The reader's answer: the filter at index (block offset >> stored exponent) is consulted;
/// a missing / unparsable filter answers "may match", an empty filter answers "no".
pub open spec fn fbr_answer(fr: &FilterBlockReader, block_offset: u64, key: Seq<u8>) -> bool {
    let idx = (block_offset as int) / (vstd::arithmetic::power2::pow2(fr.encoded_range_size_exponent as nat) as int);
    if fr.filters@.len() == 0 || idx >= fr.filters@.len() { true }
    else if fr.filters@[idx]@.len() == 0 { false }
    else if fr.filters@[idx]@.len() < 2 { true }
    else { fr.filter_policy.fp_matches(fr.filters@[idx]@, key) }
}

//@impl src/tables/filter_block.rs :: impl FilterBlockReader
//@fn key_may_match props: C14
//@sig
    requires
        fbr_wf(self),
        key@.len() <= u32::MAX,
    ensures
        r == fbr_answer(self, block_offset, key@), // [consults-filter-at-offset-shifted-by-exponent]
//@body-start
        proof {
            let e = self.encoded_range_size_exponent;
            vstd::bits::lemma_u64_pow2_no_overflow(e as nat);
            vstd::bits::lemma_u64_shl_is_mul(1u64, e as u64);
            vstd::arithmetic::power2::lemma_pow2_pos(e as nat);
        }
//@endfn
//@endimpl
