/// InternalKey satisfies the generic key-order laws.
pub proof fn lemma_internal_key_order_ok()
    ensures key_order_ok::<InternalKey>()
{
    assert forall|a: InternalKey, b: InternalKey, c: InternalKey| key_lt(&a, &b) && key_lt(&b, &c) implies key_lt(&a, &c) by { lemma_ik_trans(a, b, c); }
    assert forall|a: InternalKey, b: InternalKey, c: InternalKey| !key_lt(&a, &b) && key_lt(&c, &b) implies key_lt(&c, &a) by {
        lemma_ik_antisym(a, b); lemma_ik_trans(c, b, a);
    }
    assert forall|a: InternalKey, b: InternalKey| PartialEqSpec::eq_spec(&a, &b) implies !key_lt(&a, &b) && !key_lt(&b, &a) by { lemma_ik_eq(a, b); lemma_ik_antisym(a, b); }
    assert forall|a: InternalKey, b: InternalKey| key_lt(&a, &b) implies !key_lt(&b, &a) by { lemma_ik_antisym(a, b); }
}
