// ---------------------------------------------------------------------------------------------
// Boundary files (LevelDB AddBoundaryInputs): shared by U17 (caller side) and U49 (the function itself).
// ---------------------------------------------------------------------------------------------
/// "User key never split": no file of the level outside the set starts with the user key of the
/// set's largest key at a greater internal key (LevelDB AddBoundaryInputs).
pub open spec fn is_max_largest(set: Seq<Arc<FileMetadata>>, k: InternalKey) -> bool {
    (exists|j: int| 0 <= j < set.len() && fm_largest(&*#[trigger] set[j]) == k)
    && forall|j: int| 0 <= j < set.len() ==> ik_le(fm_largest(&*#[trigger] set[j]), k)
}
pub open spec fn boundary_closed(level_files: Seq<Arc<FileMetadata>>, set: Seq<Arc<FileMetadata>>) -> bool {
    forall|k: InternalKey, i: int| #![trigger is_max_largest(set, k), level_files[i]]
        is_max_largest(set, k) && 0 <= i < level_files.len()
        && fm_smallest(&*level_files[i]).user_key@ == k.user_key@ && ik_lt(k, fm_smallest(&*level_files[i]))
        ==> set.contains(level_files[i])
}

