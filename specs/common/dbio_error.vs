// DBIOError (src/errors.rs): RainDB's clonable wrapper around std::io::Error.
//@struct src/errors.rs :: DBIOError derive: Debug

//@impl src/errors.rs :: impl DBIOError
//@fn new
//@sig
    ensures r.error_kind == error_kind, r.custom_message == custom_message,
//@endfn
//@fn kind
//@sig
    ensures r == self.error_kind,
//@endfn
//@endimpl

// A-std (assumed): `impl From<io::Error> for DBIOError` keeps the error kind (its body calls
// io::Error::to_string, which is outside Verus).
impl From<std::io::Error> for DBIOError {
    #[verifier::external_body]
    fn from(io_err: std::io::Error) -> (r: Self) { unimplemented!() }
}
impl FromSpecImpl<std::io::Error> for DBIOError {
    open spec fn obeys_from_spec() -> bool { true }
    open spec fn from_spec(e: std::io::Error) -> Self {
        DBIOError { error_kind: io_kind(&e), custom_message: io_msg(e) }
    }
}

