// ---------------------------------------------------------------------------------------------
// Ghost model of a table file: data blocks B_0..B_n, one index entry (k_i, handle_i) per block.
// The lemmas are the LevelDB argument "index seek + block seek = global lower bound".
// ---------------------------------------------------------------------------------------------
pub struct GEntry { pub k: GKey, pub v: Seq<u8> }
pub struct TM { pub keys: Seq<GKey>, pub handles: Seq<BlockHandle>, pub blocks: Seq<Seq<GEntry>> }

pub open spec fn tm_last(m: TM, i: int) -> GEntry { m.blocks[i][m.blocks[i].len() - 1] }

#[verifier::opaque]
pub open spec fn tm_wf(m: TM) -> bool {
    &&& m.keys.len() == m.blocks.len()
    &&& m.keys.len() == m.handles.len()
    &&& forall|i: int| 0 <= i < m.blocks.len() ==> (#[trigger] m.blocks[i]).len() > 0
    // each block strictly sorted
    &&& forall|i: int, j: int, j2: int| 0 <= i < m.blocks.len() && 0 <= j < j2 < m.blocks[i].len()
            ==> gk_lt(#[trigger] m.blocks[i][j].k, #[trigger] m.blocks[i][j2].k)
    // index keys strictly sorted
    &&& forall|i: int, i2: int| 0 <= i < i2 < m.keys.len() ==> gk_lt(#[trigger] m.keys[i], #[trigger] m.keys[i2])
    // last(B_i) <= k_i < first(B_{i+1})   (stated for every entry)
    &&& forall|i: int, j: int| 0 <= i < m.blocks.len() && 0 <= j < m.blocks[i].len() ==> gk_le(#[trigger] m.blocks[i][j].k, m.keys[i])
    &&& forall|i: int, j: int| 0 <= i && i + 1 < m.blocks.len() && 0 <= j < m.blocks[i + 1].len() ==> gk_lt(m.keys[i], #[trigger] m.blocks[i + 1][j].k)
    // index keys have the separator shape (U03 [sep-shape] / [succ-shape])
    &&& forall|i: int| 0 <= i < m.blocks.len() ==> sep_shape(tm_last(m, i).k, #[trigger] m.keys[i],
            if i + 1 < m.blocks.len() { Some(m.blocks[i + 1][0].k) } else { None })
}

/// entry (i, j) has user key `u` and a sequence number at or below the bound `s`
pub open spec fn tm_visible(m: TM, u: Seq<u8>, s: u64, i: int, j: int) -> bool {
    0 <= i < m.blocks.len() && 0 <= j < m.blocks[i].len() && m.blocks[i][j].k.user == u && m.blocks[i][j].k.seq <= s
}
/// ... and it is the newest such entry in the whole table
pub open spec fn tm_newest(m: TM, u: Seq<u8>, s: u64, i: int, j: int) -> bool {
    tm_visible(m, u, s, i, j) && forall|i2: int, j2: int| #[trigger] tm_visible(m, u, s, i2, j2) ==> m.blocks[i2][j2].k.seq <= m.blocks[i][j].k.seq
}

pub proof fn lemma_gk_user_order(a: GKey, b: GKey)
    ensures
        gk_le(a, b) ==> lex_le(a.user, b.user),
        lex_lt(a.user, b.user) ==> gk_lt(a, b),
        a.user == b.user ==> (gk_le(a, b) <==> a.seq >= b.seq),
        a.user == b.user ==> (gk_lt(a, b) <==> a.seq > b.seq),
{
    lemma_lex_eq(a.user, b.user);
}

/// every entry of a block before `i` is below k_{i'} <= ... ; every entry of a later block is above k_i
#[verifier::rlimit(80)]
#[verifier::spinoff_prover]
pub proof fn lemma_tm_block_order(m: TM, i: int, i2: int, j2: int)
    requires tm_wf(m), 0 <= i < i2 < m.blocks.len(), 0 <= j2 < m.blocks[i2].len()
    ensures gk_lt(m.keys[i], m.blocks[i2][j2].k)
{
    reveal(tm_wf);
    if i + 1 < i2 {
        assert(gk_lt(m.keys[i], m.keys[i2 - 1]));
        assert(gk_lt(m.keys[i2 - 1], m.blocks[(i2 - 1) + 1][j2].k));
        lemma_gk_trans(m.keys[i], m.keys[i2 - 1], m.blocks[i2][j2].k);
    } else {
        assert(gk_lt(m.keys[i], m.blocks[i + 1][j2].k));
    }
}

/// Index seek ran off the end: every index key is below the seek key, so the table has no entry
/// of that user key at or below the bound.
pub proof fn lemma_tm_index_miss(m: TM, t: GKey)
    requires tm_wf(m), forall|i: int| 0 <= i < m.keys.len() ==> gk_lt(#[trigger] m.keys[i], t)
    ensures forall|i: int, j: int| !tm_visible(m, t.user, t.seq, i, j)
{
    reveal(tm_wf);
    assert forall|i: int, j: int| !tm_visible(m, t.user, t.seq, i, j) by {
        if tm_visible(m, t.user, t.seq, i, j) {
            let e = m.blocks[i][j].k;
            assert(gk_le(e, m.keys[i]));
            lemma_gk_trans(e, m.keys[i], t);
            lemma_gk_user_order(e, t);
        }
    }
}

/// Index seek landed on block `i`, block seek on position `j` (== len means "ran off the block").
pub proof fn lemma_tm_lookup(m: TM, t: GKey, i: int, j: int)
    requires
        tm_wf(m), 0 <= i < m.keys.len(),
        forall|i1: int| 0 <= i1 < i ==> gk_lt(#[trigger] m.keys[i1], t),
        !gk_lt(m.keys[i], t),
        0 <= j <= m.blocks[i].len(),
        forall|j1: int| 0 <= j1 < j ==> gk_lt(#[trigger] m.blocks[i][j1].k, t),
        j < m.blocks[i].len() ==> !gk_lt(m.blocks[i][j].k, t),
    ensures
        (j < m.blocks[i].len() && m.blocks[i][j].k.user == t.user) ==> tm_newest(m, t.user, t.seq, i, j),
        !(j < m.blocks[i].len() && m.blocks[i][j].k.user == t.user) ==> forall|i2: int, j2: int| !tm_visible(m, t.user, t.seq, i2, j2),
{
    reveal(tm_wf);
    let u = t.user;
    let s = t.seq;
    // (A) a visible entry never sits in a block before i, nor before j in block i
    assert forall|i2: int, j2: int| tm_visible(m, u, s, i2, j2) implies (i2 > i || (i2 == i && j2 >= j)) by {
        let e2 = m.blocks[i2][j2].k;
        lemma_gk_user_order(e2, t);
        lemma_gk_antisym(e2, t);
        if i2 < i {
            assert(gk_le(e2, m.keys[i2]));
            lemma_gk_trans(e2, m.keys[i2], t);
        }
    }
    if j < m.blocks[i].len() {
        let e = m.blocks[i][j].k;
        lemma_gk_antisym(e, t);
        lemma_gk_user_order(t, e);
        // every visible entry is at or after e in the global order
        assert forall|i2: int, j2: int| tm_visible(m, u, s, i2, j2) implies gk_le(e, m.blocks[i2][j2].k) by {
            let e2 = m.blocks[i2][j2].k;
            if i2 == i {
                if j2 == j { lemma_gk_eq(e, e); } else { assert(gk_lt(m.blocks[i][j].k, m.blocks[i][j2].k)); }
            } else {
                lemma_tm_block_order(m, i, i2, j2);
                assert(gk_le(e, m.keys[i]));
                lemma_gk_trans(e, m.keys[i], e2);
            }
        }
        if e.user == u {
            assert(tm_visible(m, u, s, i, j));
            assert forall|i2: int, j2: int| #[trigger] tm_visible(m, u, s, i2, j2) implies m.blocks[i2][j2].k.seq <= e.seq by {
                lemma_gk_user_order(e, m.blocks[i2][j2].k);
            }
        } else {
            assert forall|i2: int, j2: int| !tm_visible(m, u, s, i2, j2) by {
                if tm_visible(m, u, s, i2, j2) {
                    let e2 = m.blocks[i2][j2].k;
                    lemma_gk_user_order(e, e2);
                    lemma_lex_antisym(e.user, u);
                    lemma_lex_eq(e.user, u);
                }
            }
        }
    } else {
        // ran off block i: all of B_i is below t <= k_i, so k_i is a shortened separator
        let last = tm_last(m, i).k;
        assert(gk_lt(m.blocks[i][m.blocks[i].len() - 1].k, t));
        lemma_gk_antisym(m.keys[i], t);
        lemma_gk_user_order(t, m.keys[i]);
        assert forall|i2: int, j2: int| !tm_visible(m, u, s, i2, j2) by {
            if tm_visible(m, u, s, i2, j2) {
                let e2 = m.blocks[i2][j2].k;
                assert(i2 > i);
                // k_i != last(B_i) because last < t <= k_i
                lemma_gk_eq(last, last);
                assert(m.keys[i] != last) by { lemma_gk_antisym(last, t); }
                let first_next = m.blocks[i + 1][0].k;
                assert(lex_lt(m.keys[i].user, first_next.user));
                if i2 == i + 1 {
                    if j2 > 0 { assert(gk_lt(m.blocks[i + 1][0].k, m.blocks[i + 1][j2].k)); } else { lemma_gk_eq(first_next, first_next); }
                } else {
                    lemma_tm_block_order(m, i + 1, i2, j2);
                    assert(gk_le(first_next, m.keys[i + 1]));
                    lemma_gk_trans(first_next, m.keys[i + 1], e2);
                }
                lemma_gk_user_order(first_next, e2);
                lemma_lex_trans(u, m.keys[i].user, first_next.user);
                lemma_lex_trans(u, first_next.user, e2.user);
                lemma_lex_eq(u, e2.user);
            }
        }
    }
}

/// The index seek landed on block `i` and no entry of block `i` has user key t.user (what a
/// negative filter answer means): then no block has a visible entry.
pub proof fn lemma_tm_block_without_user(m: TM, t: GKey, i: int)
    requires
        tm_wf(m), 0 <= i < m.keys.len(),
        forall|i1: int| 0 <= i1 < i ==> gk_lt(#[trigger] m.keys[i1], t),
        !gk_lt(m.keys[i], t),
        forall|j: int| 0 <= j < m.blocks[i].len() ==> (#[trigger] m.blocks[i][j]).k.user != t.user,
    ensures forall|i2: int, j2: int| !tm_visible(m, t.user, t.seq, i2, j2)
{
    reveal(tm_wf);
    let u = t.user;
    let s = t.seq;
    assert forall|i2: int, j2: int| !tm_visible(m, u, s, i2, j2) by {
        if tm_visible(m, u, s, i2, j2) {
            let e2 = m.blocks[i2][j2].k;
            lemma_gk_user_order(e2, t);
            lemma_gk_antisym(e2, t);
            if i2 < i {
                assert(gk_le(e2, m.keys[i2]));
                lemma_gk_trans(e2, m.keys[i2], t);
            } else if i2 == i {
                assert(m.blocks[i][j2].k.user != u);
            } else {
                // t <= k_i < e2 and t.user == e2.user, hence k_i.user == u
                lemma_tm_block_order(m, i, i2, j2);
                lemma_gk_antisym(m.keys[i], t);
                lemma_gk_user_order(t, m.keys[i]);
                lemma_gk_user_order(m.keys[i], e2);
                lemma_lex_antisym(u, m.keys[i].user);
                lemma_lex_eq(u, m.keys[i].user);
                let last = tm_last(m, i).k;
                assert(m.blocks[i][m.blocks[i].len() - 1].k.user != u);
                let first_next = m.blocks[i + 1][0].k;
                assert(lex_lt(m.keys[i].user, first_next.user));
                if i2 == i + 1 {
                    if j2 > 0 { assert(gk_lt(m.blocks[i + 1][0].k, m.blocks[i + 1][j2].k)); } else { lemma_gk_eq(first_next, first_next); }
                } else {
                    lemma_tm_block_order(m, i + 1, i2, j2);
                    assert(gk_le(first_next, m.keys[i + 1]));
                    lemma_gk_trans(first_next, m.keys[i + 1], e2);
                }
                lemma_gk_user_order(first_next, e2);
                lemma_lex_trans(u, first_next.user, e2.user);
                lemma_lex_eq(u, e2.user);
            }
        }
    }
}

/// position (i2, j2) comes before (i, j) in table order
pub open spec fn tm_before(i2: int, j2: int, i: int, j: int) -> bool { i2 < i || (i2 == i && j2 < j) }

/// Seek: index lower bound `i`, block lower bound `j` in block i (j == len: ran off the block).
pub proof fn lemma_tm_seek_position(m: TM, t: GKey, i: int, j: int)
    requires
        tm_wf(m), 0 <= i < m.keys.len(),
        forall|i1: int| 0 <= i1 < i ==> gk_lt(#[trigger] m.keys[i1], t),
        !gk_lt(m.keys[i], t),
        0 <= j <= m.blocks[i].len(),
        forall|j1: int| 0 <= j1 < j ==> gk_lt(#[trigger] m.blocks[i][j1].k, t),
        j < m.blocks[i].len() ==> !gk_lt(m.blocks[i][j].k, t),
    ensures
        forall|i2: int, j2: int| 0 <= i2 < m.blocks.len() && 0 <= j2 < m.blocks[i2].len() && tm_before(i2, j2, i, j)
            ==> gk_lt(#[trigger] m.blocks[i2][j2].k, t),
        i + 1 < m.blocks.len() ==> !gk_lt(m.blocks[i + 1][0].k, t),
{
    reveal(tm_wf);
    assert forall|i2: int, j2: int| 0 <= i2 < m.blocks.len() && 0 <= j2 < m.blocks[i2].len() && tm_before(i2, j2, i, j)
        implies gk_lt(#[trigger] m.blocks[i2][j2].k, t) by {
        if i2 < i {
            assert(gk_le(m.blocks[i2][j2].k, m.keys[i2]));
            lemma_gk_trans(m.blocks[i2][j2].k, m.keys[i2], t);
        }
    }
    if i + 1 < m.blocks.len() {
        let f = m.blocks[i + 1][0].k;
        assert(gk_lt(m.keys[i], f));
        lemma_gk_antisym(m.keys[i], t);
        lemma_gk_antisym(f, t);
        if gk_lt(f, t) { lemma_gk_trans(m.keys[i], f, t); }
    }
}

/// Index seek ran off the end: every entry of the table is below the seek key.
pub proof fn lemma_tm_all_smaller(m: TM, t: GKey)
    requires tm_wf(m), forall|i: int| 0 <= i < m.keys.len() ==> gk_lt(#[trigger] m.keys[i], t)
    ensures forall|i2: int, j2: int| 0 <= i2 < m.blocks.len() && 0 <= j2 < m.blocks[i2].len() ==> gk_lt(#[trigger] m.blocks[i2][j2].k, t)
{
    reveal(tm_wf);
    assert forall|i2: int, j2: int| 0 <= i2 < m.blocks.len() && 0 <= j2 < m.blocks[i2].len() implies gk_lt(#[trigger] m.blocks[i2][j2].k, t) by {
        assert(gk_le(m.blocks[i2][j2].k, m.keys[i2]));
        lemma_gk_trans(m.blocks[i2][j2].k, m.keys[i2], t);
    }
}

/// Non-vacuity witness: a one-block table satisfies tm_wf.
pub proof fn witness_tm_wf(k: GKey, v: Seq<u8>, h: BlockHandle)
    ensures tm_wf(TM { keys: seq![k], handles: seq![h], blocks: seq![seq![GEntry { k: k, v: v }]] })
{
    reveal(tm_wf);
    lemma_gk_eq(k, k);
}
