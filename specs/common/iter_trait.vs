// ---------------------------------------------------------------------------------------------
// RainDbIterator (src/iterator.rs): the cursor trait, with the contract "a cursor on a sorted
// sequence of entries" (C04) stated on the TRAIT so that implementations and callers share it.
// ---------------------------------------------------------------------------------------------
pub open spec fn key_lt<K: Ord>(a: &K, b: &K) -> bool { a.cmp_spec(b) == Ordering::Less }

/// The key type's order is a strict total order compatible with its equality (assumed for a
/// generic key type; proved for InternalKey by lemma_internal_key_order_ok).
pub open spec fn key_order_ok<K: Ord>() -> bool {
    &&& <K as OrdSpec>::obeys_cmp_spec()
    &&& <K as PartialEqSpec>::obeys_eq_spec()
    &&& forall|a: K, b: K, c: K| #![trigger key_lt(&a, &b), key_lt(&b, &c)] key_lt(&a, &b) && key_lt(&b, &c) ==> key_lt(&a, &c)
    &&& forall|a: K, b: K, c: K| #![trigger key_lt(&a, &b), key_lt(&c, &b)] !key_lt(&a, &b) && key_lt(&c, &b) ==> key_lt(&c, &a)
    &&& forall|a: K, b: K| #![trigger a.eq_spec(&b)] a.eq_spec(&b) ==> !key_lt(&a, &b) && !key_lt(&b, &a)
    &&& forall|a: K, b: K| #![trigger key_lt(&a, &b)] key_lt(&a, &b) ==> !key_lt(&b, &a)
}

pub proof fn lemma_key_lt_trans<K: Ord>(a: &K, b: &K, c: &K)
    requires key_order_ok::<K>(), key_lt(a, b), key_lt(b, c)
    ensures key_lt(a, c)
{
    assert(key_lt(&*a, &*b) && key_lt(&*b, &*c));
}
pub proof fn lemma_key_not_lt_trans<K: Ord>(a: &K, b: &K, c: &K)
    requires key_order_ok::<K>(), !key_lt(a, b), key_lt(c, b)
    ensures key_lt(c, a)
{
    assert(!key_lt(&*a, &*b) && key_lt(&*c, &*b));
}

//@trait src/iterator.rs :: RainDbIterator
    /// representation invariant (entries strictly sorted, key order laws)
    spec fn it_wf(&self) -> bool;
    /// number of entries the cursor ranges over
    spec fn it_len(&self) -> int;
    spec fn it_key(&self, i: int) -> Self::Key;
    spec fn it_val(&self, i: int) -> Seq<u8>;
    /// cursor position; the iterator is valid iff 0 <= it_idx < it_len
    spec fn it_idx(&self) -> int;
//@tfn is_valid
        requires self.it_wf(),
        ensures r == (0 <= self.it_idx() < self.it_len()),
//@endtfn
//@tfn seek
        requires old(self).it_wf(),
        ensures
            final(self).it_wf(), final(self).it_len() == old(self).it_len(),
            forall|i: int| 0 <= i < old(self).it_len() ==> final(self).it_key(i) == old(self).it_key(i) && final(self).it_val(i) == old(self).it_val(i),
            // C04 / C13: positioned at the first entry not less than the target
            r is Ok ==> 0 <= final(self).it_idx() <= final(self).it_len()
                && (forall|i: int| 0 <= i < final(self).it_idx() ==> key_lt(&final(self).it_key(i), target))
                && (final(self).it_idx() < final(self).it_len() ==> !key_lt(&final(self).it_key(final(self).it_idx()), target)),
//@endtfn
//@tfn seek_to_first
        requires old(self).it_wf(),
        ensures
            final(self).it_wf(), final(self).it_len() == old(self).it_len(),
            forall|i: int| 0 <= i < old(self).it_len() ==> final(self).it_key(i) == old(self).it_key(i) && final(self).it_val(i) == old(self).it_val(i),
            r is Ok ==> final(self).it_idx() == 0,
//@endtfn
//@tfn seek_to_last
        requires old(self).it_wf(), old(self).it_len() > 0,
        ensures
            final(self).it_wf(), final(self).it_len() == old(self).it_len(),
            forall|i: int| 0 <= i < old(self).it_len() ==> final(self).it_key(i) == old(self).it_key(i) && final(self).it_val(i) == old(self).it_val(i),
            r is Ok ==> final(self).it_idx() == final(self).it_len() - 1,
//@endtfn
//@tfn next
        requires old(self).it_wf(),
        ensures
            final(self).it_wf(), final(self).it_len() == old(self).it_len(),
            forall|i: int| 0 <= i < old(self).it_len() ==> final(self).it_key(i) == old(self).it_key(i) && final(self).it_val(i) == old(self).it_val(i),
            // one step forward; stepping off the end (or from an invalid position) leaves the cursor invalid
            (0 <= old(self).it_idx() < old(self).it_len() - 1) ==> final(self).it_idx() == old(self).it_idx() + 1,
            !(0 <= old(self).it_idx() < old(self).it_len() - 1) ==> !(0 <= final(self).it_idx() < final(self).it_len()),
            r is Some <==> (0 <= final(self).it_idx() < final(self).it_len()),
            r matches Some(kv) ==> *kv.0 == final(self).it_key(final(self).it_idx()) && kv.1@ == final(self).it_val(final(self).it_idx()),
//@endtfn
//@tfn prev
        requires old(self).it_wf(),
        ensures
            final(self).it_wf(), final(self).it_len() == old(self).it_len(),
            forall|i: int| 0 <= i < old(self).it_len() ==> final(self).it_key(i) == old(self).it_key(i) && final(self).it_val(i) == old(self).it_val(i),
            (0 < old(self).it_idx() < old(self).it_len()) ==> final(self).it_idx() == old(self).it_idx() - 1,
            !(0 < old(self).it_idx() < old(self).it_len()) ==> !(0 <= final(self).it_idx() < final(self).it_len()),
            r is Some <==> (0 <= final(self).it_idx() < final(self).it_len()),
            r matches Some(kv) ==> *kv.0 == final(self).it_key(final(self).it_idx()) && kv.1@ == final(self).it_val(final(self).it_idx()),
//@endtfn
//@tfn current
        requires self.it_wf(),
        ensures
            r is Some <==> (0 <= self.it_idx() < self.it_len()),
            r matches Some(kv) ==> *kv.0 == self.it_key(self.it_idx()) && kv.1@ == self.it_val(self.it_idx()),
//@endtfn
//@endtrait
