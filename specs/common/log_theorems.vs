// ---------------------------------------------------------------------------------------------
// Theorems of C12 / C16 over the two contracts (U04: the writer appends `enc`; U05: the reader
// returns what the reference reader `rd` returns).  Pure ghost code.
// ---------------------------------------------------------------------------------------------
pub open spec fn blk() -> int { BLOCK_SIZE_BYTES as int }

/// the first position after `p` that is a multiple of the block size
pub proof fn lemma_next_block_start(p: int, b: int)
    requires b > 0, p >= 0
    ensures (p + (b - p % b)) % b == 0
{
    vstd::arithmetic::div_mod::lemma_fundamental_div_mod(p, b);
    let k = p / b + 1;
    assert(p + (b - p % b) == k * b) by (nonlinear_arith) requires p == b * (p / b) + p % b, k == p / b + 1;
    vstd::arithmetic::div_mod::lemma_mod_multiples_basic(k, b);
}

/// If f[p .. p+m) == e[0 .. m) then every sub-window agrees.
pub proof fn lemma_window(f: Seq<u8>, p: int, e: Seq<u8>, m: int, a: int, b2: int)
    requires 0 <= p, 0 <= a <= b2 <= m, p + m <= f.len(), m <= e.len(), f.subrange(p, p + m) == e.subrange(0, m)
    ensures f.subrange(p + a, p + b2) == e.subrange(a, b2)
{
    assert(f.subrange(p + a, p + b2) =~= f.subrange(p, p + m).subrange(a, b2));
    assert(e.subrange(0, m).subrange(a, b2) =~= e.subrange(a, b2));
}

pub proof fn lemma_bt_code(t: BlockType)
    ensures bt_code(t) <= 3, bt_of_code(bt_code(t)) == t
{
}

/// A fragment written by the writer at `h` is seen by the reference reader as a complete,
/// CRC-valid physical record with that type and payload.
pub proof fn lemma_frag_at(f: Seq<u8>, h: int, t: BlockType, pl: Seq<u8>)
    requires 0 <= h, pl.len() <= 0xffff, h + HEADER_LENGTH_BYTES + pl.len() <= f.len(),
        f.subrange(h, h + HEADER_LENGTH_BYTES + pl.len()) == frag(t, pl),
    ensures phys_complete(f, h), phys_len(f, h) == pl.len(), phys_payload(f, h) == pl, phys_valid(f, h),
        bt_of_code(f[h + 6]) == t,
{
    broadcast use group_le;
    let n = pl.len() as int;
    let fr = frag(t, pl);
    let c4 = le_enc(spec_mask(spec_crc(pl)) as nat, 4);
    let l2 = le_enc(pl.len(), 2);
    assert(fr.len() == 7 + n);
    assert(f.subrange(h, h + 4) =~= fr.subrange(0, 4));
    assert(fr.subrange(0, 4) =~= c4);
    assert(f.subrange(h + 4, h + 6) =~= fr.subrange(4, 6));
    assert(fr.subrange(4, 6) =~= l2);
    assert(le_dec(l2) == pl.len());
    assert(f[h + 6] == fr[6]);
    assert(fr[6] == bt_code(t));
    lemma_bt_code(t);
    assert(f.subrange(h + 7, h + 7 + n) =~= fr.subrange(7, 7 + n));
    assert(fr.subrange(7, 7 + n) =~= pl);
    assert(le_dec(c4) == spec_mask(spec_crc(pl)) as nat);
    lemma_unmask_mask(spec_crc(pl));
}

pub open spec fn acc_payload(first: bool, acc: Option<Seq<u8>>) -> Seq<u8> {
    if first || acc is None { Seq::<u8>::empty() } else { acc.unwrap() }
}

/// [complete] If the bytes at `p` are what the writer appends for (the rest of) a record, the
/// reference reader returns exactly that record and ends just behind it.
#[verifier::rlimit(60)]
#[verifier::spinoff_prover]
pub proof fn lemma_rd_complete(f: Seq<u8>, p: int, d: Seq<u8>, first: bool, acc: Option<Seq<u8>>)
    requires
        0 <= p,
        p + enc(p % blk(), d, first).len() <= f.len(),
        f.subrange(p, p + enc(p % blk(), d, first).len()) == enc(p % blk(), d, first),
        !first ==> acc is Some,
    ensures
        rd(f, p, acc) == RdOutcome::Record(acc_payload(first, acc) + d, p + enc(p % blk(), d, first).len()),
    decreases d.len(), enc_rank(p % blk())
{
    let b = blk();
    let off = p % b;
    let e = enc(off, d, first);
    lemma_enc_unfold(off, d, first);
    lemma_enc_end(off, d, first);
    if b - off < HEADER_LENGTH_BYTES {
        let z = b - off;
        let p1 = p + z;
        let e1 = enc(0, d, first);
        assert(zeros(z).len() == z);
        assert(p1 % b == 0) by { lemma_next_block_start(p, b); }
        assert(e.subrange(0, e.len() as int) =~= e);
        lemma_window(f, p, e, e.len() as int, z, z + e1.len());
        assert(e.subrange(z, z + e1.len()) =~= e1);
        lemma_rd_complete(f, p1, d, first, acc);
        assert(hdr_pos(p) == p1);
        assert(hdr_pos(p1) == p1);
        assert(rd(f, p, acc) == rd(f, p1, acc));
    } else {
        let avail = b - off - HEADER_LENGTH_BYTES;
        let n: int = if d.len() < avail { d.len() as int } else { avail };
        let last = d.len() == n;
        let t = frag_type(first, last);
        let pl = d.subrange(0, n);
        let fr = frag(t, pl);
        assert(fr.len() == 7 + n) by { broadcast use group_le; }
        assert(hdr_pos(p) == p);
        assert(e.subrange(0, e.len() as int) =~= e);
        lemma_window(f, p, e, e.len() as int, 0, 7 + n);
        assert(e.subrange(0, 7 + n) =~= fr);
        lemma_frag_at(f, p, t, pl);
        let q = p + 7 + n;
        if last {
            assert(pl =~= d);
            assert(acc_payload(first, acc) + d =~= (if first { d } else { acc.unwrap() + d }));
            if first { assert(Seq::<u8>::empty() + d =~= d); }
        } else {
            let rest = d.subrange(n, d.len() as int);
            let off2 = off + 7 + n;
            assert(off2 == b);
            assert(q % b == 0) by { lemma_next_block_start(p, b); }
            lemma_enc_at_block_end(rest, false);
            let e2 = enc(0, rest, false);
            assert(e == fr + enc(b, rest, false));
            lemma_window(f, p, e, e.len() as int, 7 + n, 7 + n + e2.len());
            assert(e.subrange(7 + n, 7 + n + e2.len()) =~= e2);
            let acc2: Option<Seq<u8>> = if first { Some(pl) } else { Some(acc.unwrap() + pl) };
            lemma_rd_complete(f, q, rest, false, acc2);
            assert(rd(f, p, acc) == rd(f, q, acc2));
            assert(acc2.unwrap() + rest =~= acc_payload(first, acc) + d) by {
                assert(pl + rest =~= d);
                if first { assert(Seq::<u8>::empty() + d =~= d); }
            }
        }
    }
}

/// [truncated] (C12 "cut off at any byte", C16 mechanism 1): if the file ends strictly inside
/// what the writer appended for a record, the reference reader reports end of log - it never
/// returns part of that record.
#[verifier::rlimit(60)]
#[verifier::spinoff_prover]
pub proof fn lemma_rd_truncated(f: Seq<u8>, p: int, d: Seq<u8>, first: bool, acc: Option<Seq<u8>>)
    requires
        0 <= p <= f.len(),
        f.len() < p + enc(p % blk(), d, first).len(),
        f.subrange(p, f.len() as int) == enc(p % blk(), d, first).subrange(0, f.len() - p),
    ensures
        rd(f, p, acc) == RdOutcome::Eof,
    decreases d.len(), enc_rank(p % blk())
{
    let b = blk();
    let off = p % b;
    let e = enc(off, d, first);
    let m = f.len() - p;          // bytes of e present in the file
    lemma_enc_unfold(off, d, first);
    lemma_enc_end(off, d, first);
    if b - off < HEADER_LENGTH_BYTES {
        let z = b - off;
        let p1 = p + z;
        assert(hdr_pos(p) == p1);
        assert(zeros(z).len() == z);
        if p1 + 7 <= f.len() {
            let e1 = enc(0, d, first);
            assert(p1 % b == 0) by { lemma_next_block_start(p, b); }
            lemma_window(f, p, e, m, z, m);
            assert(e.subrange(z, m) =~= e1.subrange(0, m - z));
            lemma_rd_truncated(f, p1, d, first, acc);
            assert(hdr_pos(p1) == p1);
            assert(rd(f, p, acc) == rd(f, p1, acc));
        }
    } else {
        let avail = b - off - HEADER_LENGTH_BYTES;
        let n: int = if d.len() < avail { d.len() as int } else { avail };
        let last = d.len() == n;
        let t = frag_type(first, last);
        let pl = d.subrange(0, n);
        let fr = frag(t, pl);
        assert(fr.len() == 7 + n) by { broadcast use group_le; }
        assert(hdr_pos(p) == p);
        if m >= 7 {
            // the header is intact, so the reader sees the announced payload length n
            broadcast use group_le;
            lemma_window(f, p, e, m, 4, 6);
            assert(e.subrange(4, 6) =~= fr.subrange(4, 6));
            assert(fr.subrange(4, 6) =~= le_enc(pl.len(), 2));
            assert(phys_len(f, p) == n);
            if m >= 7 + n {
                // the whole fragment is there, so it is not the last one
                assert(!last);
                lemma_window(f, p, e, m, 0, 7 + n);
                assert(e.subrange(0, 7 + n) =~= fr);
                lemma_frag_at(f, p, t, pl);
                let q = p + 7 + n;
                let rest = d.subrange(n, d.len() as int);
                assert(off + 7 + n == b);
                assert(q % b == 0) by { lemma_next_block_start(p, b); }
                lemma_enc_at_block_end(rest, false);
                let e2 = enc(0, rest, false);
                assert(e == fr + enc(b, rest, false));
                lemma_window(f, p, e, m, 7 + n, m);
                assert(e.subrange(7 + n, m) =~= e2.subrange(0, m - 7 - n));
                let acc2: Option<Seq<u8>> = if first { Some(pl) } else if acc is Some { Some(acc.unwrap() + pl) } else { None };
                lemma_rd_truncated(f, q, rest, false, acc2);
                assert(rd(f, p, acc) == rd(f, q, acc2));
            }
        }
    }
}

// ---- whole logs ------------------------------------------------------------------------------
/// The file produced by appending the records one after the other, each at block offset
/// (current length mod block size) - what LogWriter::new / append guarantee for EVERY way the
/// appends are split across writer re-openings (U04 [offset-is-len-mod-block], [appends-enc]).
pub open spec fn log_bytes(rs: Seq<Seq<u8>>) -> Seq<u8>
    decreases rs.len()
{
    if rs.len() == 0 { Seq::<u8>::empty() }
    else { log_bytes(rs.drop_last()) + enc(log_bytes(rs.drop_last()).len() as int % blk(), rs.last(), true) }
}

/// A writer whose block offset is congruent to the file length (wf_writer) appends exactly the
/// bytes `log_bytes` prescribes - also when the offset is the block size itself.
pub proof fn lemma_writer_offset_irrelevant(off: int, len: int, d: Seq<u8>)
    requires 0 <= off <= blk(), 0 <= len, off % blk() == len % blk()
    ensures enc(off, d, true) == enc(len % blk(), d, true)
{
    if off == blk() { lemma_enc_at_block_end(d, true); vstd::arithmetic::div_mod::lemma_mod_self_0(blk()); }
    else { vstd::arithmetic::div_mod::lemma_small_mod(off as nat, blk() as nat); }
}

pub proof fn lemma_log_take_step(rs: Seq<Seq<u8>>, k: int)
    requires 0 <= k < rs.len()
    ensures log_bytes(rs.take(k + 1)) == log_bytes(rs.take(k)) + enc(log_bytes(rs.take(k)).len() as int % blk(), rs[k], true)
{
    assert(rs.take(k + 1).drop_last() =~= rs.take(k));
    assert(rs.take(k + 1).last() == rs[k]);
}

pub proof fn lemma_log_prefix(rs: Seq<Seq<u8>>, k: int)
    requires 0 <= k <= rs.len()
    ensures log_bytes(rs.take(k)).len() <= log_bytes(rs).len(),
        log_bytes(rs).subrange(0, log_bytes(rs.take(k)).len() as int) == log_bytes(rs.take(k))
    decreases rs.len() - k
{
    if k == rs.len() {
        assert(rs.take(k) =~= rs);
        assert(log_bytes(rs).subrange(0, log_bytes(rs).len() as int) =~= log_bytes(rs));
    } else {
        lemma_log_prefix(rs, k + 1);
        lemma_log_take_step(rs, k);
        let a = log_bytes(rs.take(k));
        let b2 = log_bytes(rs.take(k + 1));
        assert(log_bytes(rs).subrange(0, a.len() as int) =~= b2.subrange(0, a.len() as int));
        assert(b2.subrange(0, a.len() as int) =~= a);
    }
}

/// [log-roundtrip] C12, first sentence: reading position by position returns exactly the records
/// appended, in order ...
pub proof fn theorem_read_all(rs: Seq<Seq<u8>>, k: int)
    requires 0 <= k < rs.len()
    ensures rd(log_bytes(rs), log_bytes(rs.take(k)).len() as int, None)
        == RdOutcome::Record(rs[k], log_bytes(rs.take(k + 1)).len() as int)
{
    let f = log_bytes(rs);
    let p = log_bytes(rs.take(k)).len() as int;
    lemma_log_prefix(rs, k + 1);
    lemma_log_take_step(rs, k);
    let e = enc(p % blk(), rs[k], true);
    let nxt = log_bytes(rs.take(k + 1));
    assert(f.subrange(p, p + e.len()) =~= f.subrange(0, nxt.len() as int).subrange(p, p + e.len()));
    assert(nxt.subrange(p, p + e.len()) =~= e);
    lemma_rd_complete(f, p, rs[k], true, None);
    assert(acc_payload(true, None) + rs[k] =~= rs[k]);
}

/// ... and then reports the end of the log.
pub proof fn theorem_read_end(rs: Seq<Seq<u8>>)
    ensures rd(log_bytes(rs), log_bytes(rs).len() as int, None) == RdOutcome::Eof
{
    lemma_hdr_pos(log_bytes(rs).len() as int);
}

/// [truncated-log] C12 "cut off at any byte" / C16 mechanism 1: in the log cut at byte c every
/// record that lies wholly before the cut is still returned, and the record containing the cut
/// (or the position c itself) reads as end of log.
pub proof fn theorem_truncated_log(rs: Seq<Seq<u8>>, c: int, k: int)
    requires 0 <= c <= log_bytes(rs).len(), 0 <= k < rs.len(), log_bytes(rs.take(k)).len() <= c
    ensures
        log_bytes(rs.take(k + 1)).len() <= c ==>
            rd(log_bytes(rs).subrange(0, c), log_bytes(rs.take(k)).len() as int, None)
                == RdOutcome::Record(rs[k], log_bytes(rs.take(k + 1)).len() as int),
        c < log_bytes(rs.take(k + 1)).len() ==>
            rd(log_bytes(rs).subrange(0, c), log_bytes(rs.take(k)).len() as int, None) == RdOutcome::Eof,
{
    let g = log_bytes(rs);
    let f = g.subrange(0, c);
    let p = log_bytes(rs.take(k)).len() as int;
    lemma_log_prefix(rs, k + 1);
    lemma_log_take_step(rs, k);
    let e = enc(p % blk(), rs[k], true);
    let nxt = log_bytes(rs.take(k + 1));
    assert(g.subrange(p, p + e.len()) =~= g.subrange(0, nxt.len() as int).subrange(p, p + e.len()));
    assert(nxt.subrange(p, p + e.len()) =~= e);
    if nxt.len() <= c {
        assert(f.subrange(p, p + e.len()) =~= g.subrange(p, p + e.len()));
        lemma_rd_complete(f, p, rs[k], true, None);
        assert(acc_payload(true, None) + rs[k] =~= rs[k]);
    } else {
        assert(f.subrange(p, f.len() as int) =~= g.subrange(p, p + e.len()).subrange(0, c - p));
        lemma_rd_truncated(f, p, rs[k], true, None);
    }
}

// ---- interrupted writer -----------------------------------------------------------------------
/// Bytes of a list of fragments laid out like the writer does (zero trailer when fewer than 7
/// bytes are left in the block).
pub open spec fn lay(off: int, frs: Seq<(BlockType, Seq<u8>)>) -> Seq<u8>
    decreases frs.len()
{
    if frs.len() == 0 { Seq::<u8>::empty() } else {
        let z = if blk() - off < HEADER_LENGTH_BYTES { blk() - off } else { 0 };
        let o = if blk() - off < HEADER_LENGTH_BYTES { 0 } else { off };
        zeros(z) + frag(frs[0].0, frs[0].1) + lay(o + HEADER_LENGTH_BYTES + frs[0].1.len(), frs.drop_first())
    }
}
/// The fragments a writer leaves behind when it stops between two fragments of a record:
/// First Middle* , each fitting into its block.
pub open spec fn lay_ok(off: int, frs: Seq<(BlockType, Seq<u8>)>) -> bool
    decreases frs.len()
{
    frs.len() == 0 || ({
        let o = if blk() - off < HEADER_LENGTH_BYTES { 0 } else { off };
        &&& 0 <= off <= blk()
        &&& o + HEADER_LENGTH_BYTES + frs[0].1.len() <= blk()
        &&& (frs[0].0 is First || frs[0].0 is Middle)
        &&& lay_ok(o + HEADER_LENGTH_BYTES + frs[0].1.len(), frs.drop_first())
    })
}

pub proof fn lemma_lay_at_block_end(frs: Seq<(BlockType, Seq<u8>)>)
    ensures lay(blk(), frs) == lay(0, frs), lay_ok(blk(), frs) == lay_ok(0, frs)
{
    if frs.len() > 0 { assert(zeros(0) =~= Seq::<u8>::empty()); }
}

/// The reference reader walks over such left-over fragments without returning anything.
#[verifier::rlimit(60)]
#[verifier::spinoff_prover]
pub proof fn lemma_rd_skips_stub(f: Seq<u8>, p: int, frs: Seq<(BlockType, Seq<u8>)>, acc: Option<Seq<u8>>)
    requires 0 <= p, lay_ok(p % blk(), frs), p + lay(p % blk(), frs).len() <= f.len(),
        f.subrange(p, p + lay(p % blk(), frs).len()) == lay(p % blk(), frs),
    ensures exists|a2: Option<Seq<u8>>| rd(f, p, acc) == #[trigger] rd(f, p + lay(p % blk(), frs).len(), a2)
    decreases frs.len()
{
    let b = blk();
    let off = p % b;
    let l = lay(off, frs);
    if frs.len() == 0 {
        assert(rd(f, p, acc) == rd(f, p + l.len(), acc));
    } else {
        let z = if b - off < HEADER_LENGTH_BYTES { b - off } else { 0 };
        let o = if b - off < HEADER_LENGTH_BYTES { 0 } else { off };
        let t = frs[0].0;
        let pl = frs[0].1;
        let n = pl.len() as int;
        let fr = frag(t, pl);
        let rest = frs.drop_first();
        let tail = lay(o + 7 + n, rest);
        assert(fr.len() == 7 + n) by { broadcast use group_le; }
        assert(zeros(z).len() == z);
        let h = p + z;
        assert(hdr_pos(p) == h);
        assert(l.subrange(0, l.len() as int) =~= l);
        lemma_window(f, p, l, l.len() as int, z, z + 7 + n);
        assert(l.subrange(z, z + 7 + n) =~= fr);
        lemma_frag_at(f, h, t, pl);
        let q = h + 7 + n;
        if z > 0 { lemma_next_block_start(p, b); }
        assert(h % b == o);
        // block offset after the fragment
        if o + 7 + n == b {
            lemma_next_block_start(h, b) ;
            assert(q % b == 0) by {
                if z > 0 { assert(h % b == 0); vstd::arithmetic::div_mod::lemma_mod_multiples_basic(1, b); vstd::arithmetic::div_mod::lemma_add_mod_noop(h, b, b); }
            }
            lemma_lay_at_block_end(rest);
        } else {
            vstd::arithmetic::div_mod::lemma_fundamental_div_mod(h, b);
            assert(q % b == o + 7 + n) by {
                vstd::arithmetic::div_mod::lemma_fundamental_div_mod_converse(q, b, h / b, o + 7 + n);
            }
        }
        lemma_window(f, p, l, l.len() as int, z + 7 + n, l.len() as int);
        assert(l.subrange(z + 7 + n, l.len() as int) =~= tail);
        let acc2: Option<Seq<u8>> = if t is First { Some(pl) } else if acc is Some { Some(acc.unwrap() + pl) } else { None };
        assert(rd(f, p, acc) == rd(f, q, acc2));
        lemma_rd_skips_stub(f, q, rest, acc2);
    }
}

/// [interrupted-writer] C12, last sentence: a writer stopped between two fragments of a record
/// and a later writer appended a record behind the left-over fragments - the reader returns that
/// record (and nothing made of the left-over fragments).
pub proof fn theorem_interrupted_writer(f: Seq<u8>, p: int, frs: Seq<(BlockType, Seq<u8>)>, d2: Seq<u8>, acc: Option<Seq<u8>>)
    requires 0 <= p, lay_ok(p % blk(), frs),
        ({
            let st = lay(p % blk(), frs);
            let q = p + st.len();
            let e = enc(q % blk(), d2, true);
            q + e.len() <= f.len() && f.subrange(p, q) == st && f.subrange(q, q + e.len()) == e
        }),
    ensures rd(f, p, acc) == RdOutcome::Record(d2, p + lay(p % blk(), frs).len() + enc((p + lay(p % blk(), frs).len()) % blk(), d2, true).len()),
{
    let q = p + lay(p % blk(), frs).len();
    lemma_rd_skips_stub(f, p, frs, acc);
    let a2 = choose|a2: Option<Seq<u8>>| rd(f, p, acc) == #[trigger] rd(f, q, a2);
    lemma_rd_complete(f, q, d2, true, a2);
    assert(acc_payload(true, a2) + d2 =~= d2);
}

/// [sound] C15 (log part): on ARBITRARY file contents, a record is only ever produced from
/// physical records that are complete and passed their CRC / type check, the last of them ending
/// exactly where the reader stops; nothing is read beyond the end of the file.
pub proof fn theorem_rd_sound(f: Seq<u8>, p: int, acc: Option<Seq<u8>>)
    requires 0 <= p
    ensures rd(f, p, acc) matches RdOutcome::Record(d, q) ==> p < q <= f.len()
        && exists|h: int| p <= h && #[trigger] phys_complete(f, h) && phys_valid(f, h)
            && q == h + HEADER_LENGTH_BYTES + phys_len(f, h)
            && (bt_of_code(f[h + 6]) is Full || bt_of_code(f[h + 6]) is Last)
    decreases f.len() - p
{
    let h = hdr_pos(p);
    lemma_hdr_pos(p);
    if phys_complete(f, h) {
        let q = h + HEADER_LENGTH_BYTES + phys_len(f, h);
        let pl = phys_payload(f, h);
        if !phys_valid(f, h) {
            theorem_rd_sound(f, q, None);
        } else {
            match bt_of_code(f[h + 6]) {
                BlockType::Full => { assert(phys_complete(f, h)); },
                BlockType::First => { theorem_rd_sound(f, q, Some(pl)); },
                BlockType::Middle => { theorem_rd_sound(f, q, if acc is Some { Some(acc.unwrap() + pl) } else { None }); },
                BlockType::Last => { if acc is Some { assert(phys_complete(f, h)); } else { theorem_rd_sound(f, q, None); } },
            }
        }
    }
}

// ---------------------------------------------------------------------------------------------
// C16: re-using a log for appending.  `rd_end(f, p) >= f.len()` says that a scan from p does not
// end in the middle of a fragment (the real reader's `ended_mid_fragment` flag is false exactly
// then, U05).  For such a file the record a re-opened writer appends is the next record the
// reader returns; for a file with a torn tail no such statement holds, which is why recovery must
// not reuse it.
// ---------------------------------------------------------------------------------------------
pub proof fn lemma_hdr_pos_between(p: int, l: int)
    requires 0 <= p <= l <= hdr_pos(p)
    ensures hdr_pos(l) == hdr_pos(p)
{
    let b = blk();
    let off = p % b;
    if b - off < HEADER_LENGTH_BYTES {
        vstd::arithmetic::div_mod::lemma_fundamental_div_mod(p, b);
        let k = p / b;
        // p = k*b + off, hdr_pos(p) = (k+1)*b
        if l == p + (b - off) {
            assert(l == (k + 1) * b) by (nonlinear_arith) requires l == p + (b - off), p == b * k + off;
            vstd::arithmetic::div_mod::lemma_mod_multiples_basic(k + 1, b);
        } else {
            let o2 = off + (l - p);
            assert(l == b * k + o2) by (nonlinear_arith) requires p == b * k + off, o2 == off + (l - p);
            vstd::arithmetic::div_mod::lemma_fundamental_div_mod_converse(l, b, k, o2);
        }
    }
}

pub proof fn lemma_rd_same_header(f: Seq<u8>, p1: int, p2: int, acc: Option<Seq<u8>>)
    requires 0 <= p1, 0 <= p2, hdr_pos(p1) == hdr_pos(p2)
    ensures rd(f, p1, acc) == rd(f, p2, acc)
{
}

/// [append-after-a-clean-end] the record appended by a writer re-opened on a log that does not end
/// inside a fragment is the next record the reader returns
pub proof fn theorem_append_after_clean_end(f: Seq<u8>, p: int, acc: Option<Seq<u8>>, d: Seq<u8>)
    requires 0 <= p <= f.len(), rd(f, p, acc) is Eof, rd_end(f, p) >= f.len()
    ensures rd(f + enc((f.len() as int) % blk(), d, true), p, acc)
        == RdOutcome::Record(d, (f.len() + enc((f.len() as int) % blk(), d, true).len()) as int)
    decreases f.len() - p
{
    let l = f.len() as int;
    let e = enc(l % blk(), d, true);
    let g = f + e;
    let h = hdr_pos(p);
    lemma_hdr_pos(p);
    if phys_complete(f, h) {
        let q = h + HEADER_LENGTH_BYTES + phys_len(f, h);
        let pl = phys_payload(f, h);
        assert(g.subrange(h + 4, h + 6) =~= f.subrange(h + 4, h + 6));
        assert(g.subrange(h, h + 4) =~= f.subrange(h, h + 4));
        assert(phys_payload(g, h) =~= pl);
        assert(g[h + 6] == f[h + 6]);
        assert(phys_complete(g, h));
        let acc2: Option<Seq<u8>> = if !phys_valid(f, h) { None } else {
            match bt_of_code(f[h + 6]) {
                BlockType::First => Some(pl),
                BlockType::Middle => if acc is Some { Some(acc.unwrap() + pl) } else { None },
                _ => None,
            }
        };
        assert(rd(f, p, acc) == rd(f, q, acc2));
        assert(rd(g, p, acc) == rd(g, q, acc2));
        theorem_append_after_clean_end(f, q, acc2, d);
    } else {
        // the scan of f stops at h >= l: the writer's output starts at l, whose next header is h too
        lemma_hdr_pos_between(p, l);
        lemma_rd_same_header(g, p, l, acc);
        assert(g.subrange(l, l + e.len()) =~= e);
        lemma_rd_complete(g, l, d, true, acc);
        assert(acc_payload(true, acc) + d =~= d);
    }
}
