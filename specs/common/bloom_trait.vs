// ---------------------------------------------------------------------------------------------
// FilterPolicy trait (src/filter_policy.rs) with its contract: C14's first sentence is the
// postcondition of create_filter, stated on the TRAIT so that every caller sees it.
// ---------------------------------------------------------------------------------------------
//@trait src/filter_policy.rs :: FilterPolicy flags: no-supertraits
    /// Machine-range / representation precondition of the policy (the trait impl cannot add one).
    spec fn fp_wf(&self) -> bool;
    /// Largest key-set size create_filter accepts without integer overflow.
    spec fn fp_max_keys(&self) -> int;
    /// The set of keys a filter answers "may match" for.
    spec fn fp_matches(&self, filter: Seq<u8>, key: Seq<u8>) -> bool;
//@tfn get_name
//@endtfn
//@tfn create_filter
        requires
            self.fp_wf(),
            keys@.len() <= self.fp_max_keys(),
            forall|i: int| 0 <= i < keys@.len() ==> (#[trigger] keys@[i])@.len() <= u32::MAX,
        ensures
            // C14, first sentence: every key of the set matches the filter built from the set
            forall|i: int| 0 <= i < keys@.len() ==> self.fp_matches(r@, (#[trigger] keys@[i])@),
            r@.len() <= 0x1000_0100,
//@endtfn
//@tfn key_may_match
        requires
            self.fp_wf(),
            key@.len() <= u32::MAX,
            serialized_filter@.len() <= 0x2000_0000,
        ensures
            r matches Ok(b) ==> b == self.fp_matches(serialized_filter@, key@),
            r is Err <==> serialized_filter@.len() < 2,
//@endtfn
//@endtrait
//@enum src/filter_policy.rs :: FilterPolicyError derive: Debug
