// ---------------------------------------------------------------------------------------------
// Bloom filter policy (src/filter_policy.rs): real functions + ghost description of the probes.
// ---------------------------------------------------------------------------------------------
//@struct src/filter_policy.rs :: BloomFilterPolicy derive: Debug

#[verifier::opaque]
pub open spec fn hash_words(v: Seq<u8>, idx: int, h: u32) -> u32
    decreases v.len() - idx
{
    if 0 <= idx && idx + 4 <= v.len() {
        let word = le_dec(v.subrange(idx, idx + 4)) as u32;
        let h1 = h.wrapping_add(word).wrapping_mul(0xc6a4a793u32);
        hash_words(v, idx + 4, h1 ^ (h1 >> 16))
    } else { h }
}
pub proof fn lemma_hash_words_unfold(v: Seq<u8>, idx: int, h: u32)
    ensures hash_words(v, idx, h) == (if 0 <= idx && idx + 4 <= v.len() {
        let word = le_dec(v.subrange(idx, idx + 4)) as u32;
        let h1 = h.wrapping_add(word).wrapping_mul(0xc6a4a793u32);
        hash_words(v, idx + 4, h1 ^ (h1 >> 16))
    } else { h })
{
    reveal_with_fuel(hash_words, 1);
}
pub open spec fn hash_words_end(v: Seq<u8>) -> int { ((v.len() / 4) * 4) as int }
pub open spec fn hash_tail(v: Seq<u8>, idx: int, h: u32) -> u32 {
    let left = v.len() - idx;
    let h3 = if left == 3 { h.wrapping_add(((v[idx + 2] as u32) << 16) as u32) } else { h };
    let h2 = if left >= 2 { h3.wrapping_add(((v[idx + 1] as u32) << 8) as u32) } else { h3 };
    if left >= 1 { let h1 = h2.wrapping_add(v[idx] as u32).wrapping_mul(0xc6a4a793u32); h1 ^ (h1 >> 24) } else { h2 }
}
/// Ghost mirror of BloomFilterPolicy::hash (helper contract: only "hash is a function of the key
/// bytes" matters for C14).
pub open spec fn spec_hash(v: Seq<u8>) -> u32 {
    let h0 = 0xbc9f1d34u32 ^ ((v.len() as u32).wrapping_mul(0xc6a4a793u32));
    hash_tail(v, hash_words_end(v), hash_words(v, 0, h0))
}

pub open spec fn spec_delta(h: u32) -> u32 { (h >> 17) | (h << 15) }

/// j-th probe of the double-hashing sequence.
pub open spec fn probe(h: u32, d: u32, j: nat) -> u32
    decreases j
{
    if j == 0 { h } else { probe(h, d, (j - 1) as nat).wrapping_add(d) }
}

pub open spec fn bit_set(bits: Seq<u8>, pos: int) -> bool {
    0 <= pos / 8 < bits.len() && (bits[pos / 8] & (1u8 << ((pos % 8) as u32))) != 0
}

/// "every probe of `key` is set in the filter" - with the probe count READ FROM THE FILTER BYTE.
pub open spec fn filter_matches(filter: Seq<u8>, key: Seq<u8>) -> bool {
    let bits = filter.subrange(1, filter.len() as int);
    let nbits = (bits.len() * 8) as int;
    forall|j: nat| j < filter[0] ==> bit_set(bits, (#[trigger] probe(spec_hash(key), spec_delta(spec_hash(key)), j)) as int % nbits)
}

pub proof fn lemma_or_sets_bit(x: u8, o: u32)
    requires o < 8
    ensures (x | (1u8 << o)) & (1u8 << o) != 0
{
    assert((x | (1u8 << o)) & (1u8 << o) != 0) by (bit_vector) requires o < 8;
}

/// Setting a bit never clears another one.
pub proof fn lemma_set_bit_monotone(old_bits: Seq<u8>, new_bits: Seq<u8>, b: int, m: u8)
    requires 0 <= b < old_bits.len(), new_bits == old_bits.update(b, old_bits[b] | m)
    ensures forall|pos: int| bit_set(old_bits, pos) ==> #[trigger] bit_set(new_bits, pos)
{
    assert forall|pos: int| bit_set(old_bits, pos) implies #[trigger] bit_set(new_bits, pos) by {
        if pos / 8 == b {
            lemma_or_keeps_bit(old_bits[b], m, 1u8 << ((pos % 8) as u32));
        }
    }
}

pub proof fn lemma_set_bit_sets(old_bits: Seq<u8>, new_bits: Seq<u8>, pos: int)
    requires 0 <= pos, pos / 8 < old_bits.len(),
        new_bits == old_bits.update(pos / 8, old_bits[pos / 8] | (1u8 << ((pos % 8) as u32)))
    ensures bit_set(new_bits, pos)
{
    lemma_or_sets_bit(old_bits[pos / 8], (pos % 8) as u32);
}
pub proof fn lemma_or_keeps_bit(x: u8, m: u8, n: u8)
    requires x & n != 0
    ensures (x | m) & n != 0
{
    assert((x | m) & n != 0) by (bit_vector) requires x & n != 0;
}

pub open spec fn bloom_wf(p: &BloomFilterPolicy) -> bool { 1 <= p.num_hash_functions <= 30 }

//@impl src/filter_policy.rs :: impl BloomFilterPolicy
//@fn hash props: -
//@sig
    requires val@.len() <= u32::MAX,
    ensures r == spec_hash(val@), // [hash-is-a-function-of-the-bytes]
//@body-start
        let ghost h0 = 0xbc9f1d34u32 ^ ((val@.len() as u32).wrapping_mul(0xc6a4a793u32));
//@loop 1
            invariant
                idx % 4 == 0, idx <= val@.len(), val@.len() <= u32::MAX, multiplier == 0xc6a4a793u32,
                hash_words(val@, 0, h0) == hash_words(val@, idx as int, hash),
            decreases val@.len() - idx,
//@loop-start 1
            proof { lemma_hash_words_unfold(val@, idx as int, hash); }
//@before /let left_over = val.len\(\) - idx;/
        proof {
            lemma_hash_words_unfold(val@, idx as int, hash);
            assert(idx as int == hash_words_end(val@));
            assert(hash == hash_words(val@, 0, h0));
        }
        let ghost hw = hash;
        let ghost ie = idx as int;
//@before /^        hash$/
        proof { assert(hash == hash_tail(val@, ie, hw)); }
//@endfn
//@endimpl

//@impl src/filter_policy.rs :: impl FilterPolicy for BloomFilterPolicy
    open spec fn fp_wf(&self) -> bool { bloom_wf(self) && self.bits_per_key <= 0x1000_0000 }
    open spec fn fp_max_keys(&self) -> int { (0x7fff_0000int / (if self.bits_per_key == 0 { 1int } else { self.bits_per_key as int })) }
    open spec fn fp_matches(&self, filter: Seq<u8>, key: Seq<u8>) -> bool { filter.len() >= 2 && filter_matches(filter, key) }
//@fn get_name
//@sig
//@endfn
//@fn create_filter props: C14
//@sig
    ensures
        r@.len() >= 2, // [filter-has-bits]
        r@[0] == self.num_hash_functions as u8, // [probe-count-stored]
        forall|i: int| 0 <= i < keys@.len() ==> filter_matches(r@, (#[trigger] keys@[i])@), // [every-key-matches]
//@body-start
        proof {
            let b: int = if self.bits_per_key == 0 { 1int } else { self.bits_per_key as int };
            assert(keys@.len() * self.bits_per_key <= 0x7fff_0000) by (nonlinear_arith)
                requires keys@.len() <= 0x7fff_0000int / b, b >= 1, self.bits_per_key == b || self.bits_per_key == 0;
        }
//@loop 1 iter=it
            invariant
                bloom_wf(self),
                forall|i: int| 0 <= i < keys@.len() ==> (#[trigger] keys@[i])@.len() <= u32::MAX,
                hashes@.len() == filter_size_bytes, filter_size_bits == filter_size_bytes * 8,
                1 <= filter_size_bytes, filter_size_bits <= 0x7fff_0100,
                forall|i: int, j: nat| 0 <= i < it.index@ && j < self.num_hash_functions ==>
                    bit_set(hashes@, (#[trigger] probe(spec_hash(keys@[i]@), spec_delta(spec_hash(keys@[i]@)), j)) as int % (filter_size_bits as int)), // [inv-earlier-keys-set]
//@loop-start 1
            let ghost ki = it.index@ as int;
            let ghost hk = spec_hash(keys@[ki]@);
//@loop 2 iter=it2
                invariant
                    bloom_wf(self),
                    0 <= ki < keys@.len(), hk == spec_hash(keys@[ki]@), delta == spec_delta(hk),
                    hashes@.len() == filter_size_bytes, filter_size_bits == filter_size_bytes * 8,
                    1 <= filter_size_bytes, filter_size_bits <= 0x7fff_0100,
                    hash == probe(hk, delta, it2.index@ as nat),
                    forall|i: int, j: nat| 0 <= i < ki && j < self.num_hash_functions ==>
                        bit_set(hashes@, (#[trigger] probe(spec_hash(keys@[i]@), spec_delta(spec_hash(keys@[i]@)), j)) as int % (filter_size_bits as int)),
                    forall|j: nat| j < it2.index@ ==> bit_set(hashes@, (#[trigger] probe(hk, delta, j)) as int % (filter_size_bits as int)), // [inv-probes-of-key-set]
//@loop-start 2
                let ghost old_bits = hashes@;
                let ghost jj = it2.index@ as nat;
//@after /hashes\[byte_offset\] \|= 1 << bit_offset_in_byte;/
                proof {
                    let pos = overall_bit_offset as int;
                    assert(pos == hash as int % (filter_size_bits as int));
                    assert(byte_offset as int == pos / 8);
                    lemma_set_bit_monotone(old_bits, hashes@, pos / 8, 1u8 << bit_offset_in_byte);
                    lemma_set_bit_sets(old_bits, hashes@, pos);
                    assert(probe(hk, delta, jj + 1) == hash.wrapping_add(delta));
                }
//@before /\[vec!\[self.num_hash_functions as u8\], hashes\].concat\(\)/
        let ghost final_bits = hashes@;
        proof {
            let rr = seq![self.num_hash_functions as u8] + final_bits;
            assert(rr.subrange(1, rr.len() as int) =~= final_bits);
        }
//@endfn
//@fn key_may_match props: C14
//@sig
    ensures
        serialized_filter@.len() >= 2 ==> r == Ok::<bool, FilterPolicyError>(filter_matches(serialized_filter@, key@)), // [answer-is-all-probes-set]
        serialized_filter@.len() < 2 ==> r is Err,
//@before /let mut hash = BloomFilterPolicy::hash\(key\);/
        let ghost hk = spec_hash(key@);
        let ghost bits = serialized_filter@.subrange(1, serialized_filter@.len() as int);
        proof { assert(bloom_filter@ =~= bits); }
//@loop 1 iter=it
            invariant
                hk == spec_hash(key@), delta == spec_delta(hk),
                bloom_filter@ == bits, bits == serialized_filter@.subrange(1, serialized_filter@.len() as int),
                1 <= bloom_filter@.len() < 0x2000_0000, filter_length_bits == bloom_filter@.len() * 8, serialized_filter@.len() >= 2,
                *num_hash_functions == serialized_filter@[0],
                hash == probe(hk, delta, it.index@ as nat),
                forall|j: nat| j < it.index@ ==> bit_set(bits, (#[trigger] probe(hk, delta, j)) as int % (filter_length_bits as int)), // [inv-earlier-probes-set]
//@loop-start 1
            let ghost jj = it.index@ as nat;
            proof { assert(probe(hk, delta, jj + 1) == hash.wrapping_add(delta)); }
//@before /return Ok\(false\);/
                proof {
                    assert(!bit_set(bits, probe(hk, delta, jj) as int % (filter_length_bits as int)));
                }
//@endfn
//@endimpl
