// ---------------------------------------------------------------------------------------------
// src/utils/crc.rs: checksum masking (real functions) + ghost functions and inverse lemma.
// ---------------------------------------------------------------------------------------------
//@const src/utils/crc.rs :: CRC_MASKING_DELTA

pub open spec fn spec_mask(c: u32) -> u32 {
    (((c >> 15) | (c << 17)) as u32).wrapping_add(CRC_MASKING_DELTA)
}
pub open spec fn spec_unmask(m: u32) -> u32 {
    let rotated = m.wrapping_sub(CRC_MASKING_DELTA);
    ((rotated >> 17) | (rotated << 15)) as u32
}

//@fn src/utils/crc.rs :: mask_checksum props: C12 C15
//@sig
    ensures r == spec_mask(checksum), // [mask-spec]
//@endfn

//@fn src/utils/crc.rs :: unmask_checksum props: C12 C15
//@sig
    ensures r == spec_unmask(masked_checksum), // [unmask-spec]
//@endfn

/// unmask(mask(c)) == c  (the reader's unmasking inverts the writer's masking).
pub proof fn lemma_unmask_mask(c: u32)
    ensures spec_unmask(spec_mask(c)) == c
{
    let x = ((c >> 15) | (c << 17)) as u32;
    let m = x.wrapping_add(CRC_MASKING_DELTA);
    assert(m.wrapping_sub(CRC_MASKING_DELTA) == x) by {
        if x as int + CRC_MASKING_DELTA as int > u32::MAX as int {
            assert(m as int == x as int + CRC_MASKING_DELTA as int - 0x1_0000_0000);
        } else {
            assert(m as int == x as int + CRC_MASKING_DELTA as int);
        }
    }
    assert(((x >> 17) | (x << 15)) as u32 == c) by (bit_vector)
        requires x == ((c >> 15) | (c << 17)) as u32;
}
