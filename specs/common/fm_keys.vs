pub open spec fn fm_smallest(f: &FileMetadata) -> InternalKey { f.smallest_key.unwrap() }
pub open spec fn fm_largest(f: &FileMetadata) -> InternalKey { f.largest_key.unwrap() }
