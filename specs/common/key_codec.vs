// ---------------------------------------------------------------------------------------------
// Serialized form of InternalKey (src/key.rs): user key ++ le8(sequence) ++ [operation].
// ---------------------------------------------------------------------------------------------
//@include specs/common/read_error.vs
//@enum src/errors.rs :: RainDBError keep: IO TableRead KeyParsing KeyNotFound Other derive: Debug
//@type src/errors.rs :: RainDBResult
//@impl src/errors.rs :: impl From<ReadError> for RainDBError
//@fn from
//@sig
//@endfn
//@endimpl
impl FromSpecImpl<ReadError> for RainDBError {
    open spec fn obeys_from_spec() -> bool { true }
    open spec fn from_spec(e: ReadError) -> Self { RainDBError::TableRead(e) }
}
//@impl src/errors.rs :: impl From<io::Error> for RainDBError
//@fn from
//@sig
//@endfn
//@endimpl
impl FromSpecImpl<std::io::Error> for RainDBError {
    open spec fn obeys_from_spec() -> bool { true }
    open spec fn from_spec(e: std::io::Error) -> Self { RainDBError::IO(<DBIOError as FromSpec<std::io::Error>>::from_spec(e)) }
}
//@item src/key.rs :: trait RainDbKeyType

pub open spec fn op_code(o: Operation) -> u8 { match o { Operation::Delete => 0u8, Operation::Put => 1u8 } }

pub open spec fn gk_bytes(k: GKey) -> Seq<u8> {
    k.user + le_enc(k.seq as nat, 8) + seq![op_code(k.op)]
}
pub open spec fn ik_bytes(k: InternalKey) -> Seq<u8> { gk_bytes(gk(k)) }

/// Total ghost decoder (meaningful when `s.len() >= 9`).
pub open spec fn gk_dec(s: Seq<u8>) -> GKey {
    let n = s.len() as int;
    GKey {
        user: s.subrange(0, n - 9),
        seq: le_dec(s.subrange(n - 9, n - 1)) as u64,
        op: if s[n - 1] == 0 { Operation::Delete } else { Operation::Put },
    }
}
pub open spec fn gk_decodable(s: Seq<u8>) -> bool { s.len() >= 9 && s[s.len() - 1] <= 1 }

pub proof fn lemma_gk_dec_bytes(k: GKey)
    ensures gk_dec(gk_bytes(k)) == k, gk_decodable(gk_bytes(k)), gk_bytes(k).len() == k.user.len() + 9
{
    broadcast use group_le;
    let a = gk_bytes(k);
    let n = k.user.len() as int;
    assert(a.len() == n + 9);
    assert(a.subrange(0, n) =~= k.user);
    assert(a.subrange(n, n + 8) =~= le_enc(k.seq as nat, 8));
    assert(le_dec(le_enc(k.seq as nat, 8)) == k.seq);
}

//@impl src/key.rs :: impl TryFrom<u8> for Operation
//@fn try_from props: C13 C15
//@sig
    ensures
        value == 0 ==> r == Ok::<Operation, RainDBError>(Operation::Delete), // [op-0-delete]
        value == 1 ==> r == Ok::<Operation, RainDBError>(Operation::Put), // [op-1-put]
        value > 1 ==> r is Err, // [op-other-err]
//@endfn
//@endimpl
impl TryFromSpecImpl<u8> for Operation {
    open spec fn obeys_try_from_spec() -> bool { false }
    uninterp spec fn try_from_spec(v: u8) -> Result<Self, Self::Error>;
}

//@impl src/key.rs :: impl RainDbKeyType for InternalKey
//@fn as_bytes props: C13 C10
//@sig
    ensures r@ == ik_bytes(*self), // [key-layout]
//@body-start
        broadcast use group_le;
        proof { axiom_vec_u8_len_bound(&self.user_key); }
//@endfn
//@endimpl

//@impl src/key.rs :: impl TryFrom<Vec<u8>> for InternalKey
//@fn try_from props: C13 C15 C10
//@sig
    ensures
        r matches Ok(k) ==> buf@ == ik_bytes(k), // [decode-inverts-encode]
        r is Err <==> (buf@.len() < 9 || buf@[buf@.len() - 1] > 1), // [err-iff-malformed]
//@body-start
        broadcast use group_le, lemma_cloned_u8;
//@before /Ok\(InternalKey::new\(/
        proof {
            let n = trailer_start_index as int;
            let mid = buf@.subrange(n, n + 8);
            assert(le_enc(le_dec(mid), 8) == mid);
            assert(user_key@ =~= buf@.subrange(0, n));
            assert(buf@ =~= buf@.subrange(0, n) + mid + seq![buf@[n + 8]]);
        }
//@endfn
//@endimpl
impl TryFromSpecImpl<Vec<u8>> for InternalKey {
    open spec fn obeys_try_from_spec() -> bool { false }
    uninterp spec fn try_from_spec(v: Vec<u8>) -> Result<Self, Self::Error>;
}

//@impl src/key.rs :: impl From<&InternalKey> for Vec<u8>
//@fn from props: C13
//@sig
    ensures r@ == ik_bytes(*key),
//@endfn
//@endimpl
impl FromSpecImpl<&InternalKey> for Vec<u8> {
    open spec fn obeys_from_spec() -> bool { false }
    uninterp spec fn from_spec(k: &InternalKey) -> Self;
}

/// Round trip: equal encodings mean equal keys (statement over the two contracts).
pub proof fn lemma_key_roundtrip(k: InternalKey, k2: InternalKey)
    requires ik_bytes(k) == ik_bytes(k2)
    ensures k.user_key@ == k2.user_key@, k.sequence_number == k2.sequence_number, k.operation == k2.operation
{
    lemma_gk_dec_bytes(gk(k));
    lemma_gk_dec_bytes(gk(k2));
}
