// ---------------------------------------------------------------------------------------------
// FileMetadata: real struct (fields the contracts mention) + its accessors from
// src/versioning/file_metadata.rs.  All fields are kept; parking_lot::RwLock is an opaque stand-in (prelude/locks.rs).
// ---------------------------------------------------------------------------------------------
//@include prelude/locks.rs
//@const src/config.rs :: SEEK_DATA_SIZE_THRESHOLD_KIB
//@struct src/versioning/file_metadata.rs :: FileMetadata

//@impl src/versioning/file_metadata.rs :: impl FileMetadata
//@fn new props: C10
//@sig
    ensures r.file_number == file_number, r.file_size == 0, r.smallest_key is None, r.largest_key is None,
//@endfn
//@fn set_file_size props: C10
//@sig
    ensures final(self).file_size == file_size, final(self).file_number == old(self).file_number,
        final(self).smallest_key == old(self).smallest_key, final(self).largest_key == old(self).largest_key, // [size-only]
//@endfn
//@fn set_smallest_key props: C10
//@sig
    ensures final(self).smallest_key == smallest_key, final(self).file_number == old(self).file_number,
        final(self).file_size == old(self).file_size, final(self).largest_key == old(self).largest_key,
//@endfn
//@fn set_largest_key props: C10
//@sig
    ensures final(self).largest_key == largest_key, final(self).file_number == old(self).file_number,
        final(self).file_size == old(self).file_size, final(self).smallest_key == old(self).smallest_key,
//@endfn
//@fn smallest_key
//@sig
    requires self.smallest_key.is_some(),
    ensures *r == self.smallest_key.unwrap(),
//@endfn
//@fn largest_key
//@sig
    requires self.largest_key.is_some(),
    ensures *r == self.largest_key.unwrap(),
//@endfn
//@fn file_number
//@sig
    ensures r == self.file_number,
//@endfn
//@fn get_file_size
//@sig
    ensures r == self.file_size,
//@endfn
//@endimpl
