// ---------------------------------------------------------------------------------------------
// FileMetadata: real struct (fields the contracts mention) + its accessors from
// src/versioning/file_metadata.rs.  Dropped field: allowed_seeks (seek-compaction statistics).
// ---------------------------------------------------------------------------------------------
//@struct src/versioning/file_metadata.rs :: FileMetadata keep: file_number file_size smallest_key largest_key

//@impl src/versioning/file_metadata.rs :: impl FileMetadata
//@fn smallest_key
//@sig
    requires self.smallest_key.is_some(),
    ensures *r == self.smallest_key.unwrap(),
//@endfn
//@fn largest_key
//@sig
    requires self.largest_key.is_some(),
    ensures *r == self.largest_key.unwrap(),
//@endfn
//@fn file_number
//@sig
    ensures r == self.file_number,
//@endfn
//@fn get_file_size
//@sig
    ensures r == self.file_size,
//@endfn
//@endimpl
