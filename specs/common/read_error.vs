// ReadError (src/tables/errors.rs): errors of table reads; `Footer(FooterError)` is dropped (R9).
//@include specs/common/dbio_error.vs
//@enum src/tables/errors.rs :: ReadError keep: FailedToParse BlockDecompression IO FilterBlock KeyNotFound derive: Debug
//@type src/tables/errors.rs :: TableReadResult
