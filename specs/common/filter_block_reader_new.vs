// ---------------------------------------------------------------------------------------------
// FilterBlockReader::new (src/tables/filter_block.rs): parsing of the filter block layout that
// FilterBlockBuilder::finalize writes.
// ---------------------------------------------------------------------------------------------
/// start of the offset array, the offsets, and filter i of a filter block
pub open spec fn fb_start(d: Seq<u8>) -> int { le_dec(d.subrange(d.len() - 5, d.len() - 1)) as int }
pub open spec fn fb_count(d: Seq<u8>) -> int { (d.len() - 5 - fb_start(d)) / 4 }
pub open spec fn fb_off(d: Seq<u8>, i: int) -> int { le_dec(d.subrange(fb_start(d) + 4 * i, fb_start(d) + 4 * i + 4)) as int }
pub open spec fn fb_filter(d: Seq<u8>, i: int) -> Seq<u8> {
    d.subrange(fb_off(d, i), if i + 1 < fb_count(d) { fb_off(d, i + 1) } else { fb_start(d) })
}
/// a filter block whose trailer fits and whose offsets are ascending inside the filter area
/// (on anything else `new` panics on a slice index or returns an error: outside this contract)
pub open spec fn fb_wf(d: Seq<u8>) -> bool {
    &&& d.len() >= 5 && 0 <= fb_start(d) <= d.len() - 5 && (d.len() - 5 - fb_start(d)) % 4 == 0
    &&& forall|i: int| 0 <= i < fb_count(d) ==> 0 <= #[trigger] fb_off(d, i) <= fb_start(d)
    &&& forall|i: int, j: int| 0 <= i <= j < fb_count(d) ==> #[trigger] fb_off(d, i) <= #[trigger] fb_off(d, j)
}

// ASSUMED (contract of FilterBlockReader::deserialize_offsets, whose body is
// `raw_offsets.chunks(4).map(u32::decode_fixed).collect()` - iterator adapters this Verus build
// does not ingest): the offsets are the consecutive little-endian 32-bit words.
impl FilterBlockReader {
    #[verifier::external_body]
    pub fn deserialize_offsets(raw_offsets: &[u8]) -> (r: TableReadResult<Vec<u32>>)
        ensures
            raw_offsets@.len() % 4 == 0 ==> r is Ok,
            r matches Ok(v) ==> v@.len() * 4 == raw_offsets@.len()
                && forall|i: int| 0 <= i < v@.len() ==> v@[i] == u32::fx_dec(raw_offsets@.subrange(4 * i, 4 * i + 4)),
    { unimplemented!() }
}

//@impl src/tables/filter_block.rs :: impl FilterBlockReader
//@fn split_filters_with_offset props: C14
//@sig
    requires
        forall|i: int, j: int| 0 <= i <= j < offsets@.len() ==> #[trigger] offsets@[i] <= #[trigger] offsets@[j],
        forall|i: int| 0 <= i < offsets@.len() ==> #[trigger] offsets@[i] <= raw_filters@.len(),
    ensures
        r@.len() == offsets@.len(),
        forall|i: int| 0 <= i < r@.len() ==> (#[trigger] r@[i])@ == raw_filters@.subrange(offsets@[i] as int,
            if i + 1 < offsets@.len() { offsets@[i + 1] as int } else { raw_filters@.len() as int }), // [filter-i-is-the-bytes-between-offset-i-and-the-next]
//@loop 1 iter=it
            invariant
                forall|i: int, j: int| 0 <= i <= j < offsets@.len() ==> #[trigger] offsets@[i] <= #[trigger] offsets@[j],
                forall|i: int| 0 <= i < offsets@.len() ==> #[trigger] offsets@[i] <= raw_filters@.len(),
                filters@.len() == it.index@,
                forall|i: int| 0 <= i < filters@.len() ==> (#[trigger] filters@[i])@ == raw_filters@.subrange(offsets@[i] as int,
                    if i + 1 < offsets@.len() { offsets@[i + 1] as int } else { raw_filters@.len() as int }),
//@endfn
//@fn new props: C14 C15
//@sig
    requires fb_wf(filter_data@),
    ensures
        r matches Ok(fr) && fr.filter_policy == filter_policy
            && fr.encoded_range_size_exponent == filter_data@[filter_data@.len() - 1] // [exponent-is-the-last-byte]
            && fr.filters@.len() == fb_count(filter_data@)
            && forall|i: int| 0 <= i < fr.filters@.len() ==> (#[trigger] fr.filters@[i])@ == fb_filter(filter_data@, i), // [filter-i-is-cut-out-at-its-offsets]
//@body-start
        broadcast use group_le;
        let ghost d = filter_data@;
        let ghost n = d.len() as int;
        proof { axiom_vec_u8_len_bound(&filter_data); }
//@before /let offsets = FilterBlockReader::deserialize_offsets\(/
        proof {
            assert(filter_data@ =~= d.subrange(0, n - 1));
            assert(raw_offsets_start@ =~= d.subrange(n - 5, n - 1));
            axiom_le_enc_dec(d.subrange(n - 5, n - 1));
            assert(offsets_start_index as int == fb_start(d));
        }
//@before /let raw_filters = /
        proof {
            let s = fb_start(d);
            let ro = d.subrange(s, n - 5);
            assert(filter_data@.subrange(s, filter_data@.len() - 4) =~= ro);
            assert(offsets@.len() == fb_count(d));
            assert forall|i: int| 0 <= i < offsets@.len() implies offsets@[i] as int == fb_off(d, i) by {
                assert(ro.subrange(4 * i, 4 * i + 4) =~= d.subrange(s + 4 * i, s + 4 * i + 4));
                axiom_le_enc_dec(d.subrange(s + 4 * i, s + 4 * i + 4));
            }
        }
//@before /let filters = FilterBlockReader::split_filters_with_offset/
        proof {
            let s = fb_start(d);
            assert(raw_filters@ =~= d.subrange(0, s));
            assert forall|i: int| 0 <= i < offsets@.len() implies #[trigger] offsets@[i] <= raw_filters@.len() by { assert(fb_off(d, i) <= s); }
            assert forall|i: int, j: int| 0 <= i <= j < offsets@.len() implies #[trigger] offsets@[i] <= #[trigger] offsets@[j] by { assert(fb_off(d, i) <= fb_off(d, j)); }
        }
//@before /Ok\(Self \{/
        proof {
            let s = fb_start(d);
            assert(raw_filters@ =~= d.subrange(0, s));
            assert forall|i: int| 0 <= i < filters@.len() implies (#[trigger] filters@[i])@ == fb_filter(d, i) by {
                let hi = if i + 1 < offsets@.len() { offsets@[i + 1] as int } else { s };
                assert(raw_filters@.subrange(offsets@[i] as int, hi) =~= d.subrange(fb_off(d, i), hi));
            }
        }
//@endfn
//@endimpl

pub proof fn lemma_offsets_word(fs: Seq<Vec<u8>>, n: int, i: int)
    requires 0 <= i < n <= fs.len()
    ensures offsets_enc(fs, n).subrange(4 * i, 4 * i + 4) == le_enc(concat_filters(fs, i).len(), 4)
    decreases n
{
    broadcast use group_le;
    lemma_offsets_enc_len(fs, n - 1);
    if i < n - 1 {
        lemma_offsets_word(fs, n - 1, i);
        assert(offsets_enc(fs, n).subrange(4 * i, 4 * i + 4) =~= offsets_enc(fs, n - 1).subrange(4 * i, 4 * i + 4));
    } else {
        assert(offsets_enc(fs, n).subrange(4 * i, 4 * i + 4) =~= le_enc(concat_filters(fs, i).len(), 4));
    }
}
pub proof fn lemma_concat_piece(fs: Seq<Vec<u8>>, n: int, i: int)
    requires 0 <= i < n <= fs.len()
    ensures
        concat_filters(fs, i).len() + fs[i]@.len() == concat_filters(fs, i + 1).len(),
        concat_filters(fs, i + 1).len() <= concat_filters(fs, n).len(),
        concat_filters(fs, n).subrange(concat_filters(fs, i).len() as int, concat_filters(fs, i + 1).len() as int) == fs[i]@,
    decreases n
{
    lemma_concat_filters_mono(fs, i + 1, n);
    if i < n - 1 {
        lemma_concat_piece(fs, n - 1, i);
        let a = concat_filters(fs, i).len() as int; let b = concat_filters(fs, i + 1).len() as int;
        assert(concat_filters(fs, n).subrange(a, b) =~= concat_filters(fs, n - 1).subrange(a, b));
    } else {
        let a = concat_filters(fs, i).len() as int;
        assert(concat_filters(fs, n).subrange(a, a + fs[i]@.len()) =~= fs[i]@);
    }
}
pub open spec fn filter_block_layout(fs: Seq<Vec<u8>>, exponent: u8) -> Seq<u8> {
    concat_filters(fs, fs.len() as int) + offsets_enc(fs, fs.len() as int) + le_enc(concat_filters(fs, fs.len() as int).len(), 4) + seq![exponent]
}
/// ROUND TRIP (C14, second sentence): the block FilterBlockBuilder::finalize writes is well formed
/// for the reader, and the reader cuts out exactly the builder's filters, in order - so the filter
/// consulted for block offset o is the one the builder generated for range o >> exponent.
pub proof fn lemma_filter_block_roundtrip(fs: Seq<Vec<u8>>, exponent: u8)
    requires concat_filters(fs, fs.len() as int).len() <= u32::MAX
    ensures ({
        let d = filter_block_layout(fs, exponent);
        &&& fb_wf(d) && fb_count(d) == fs.len() && d[d.len() - 1] == exponent
        &&& forall|i: int| 0 <= i < fs.len() ==> #[trigger] fb_filter(d, i) == fs[i]@
    }),
{
    broadcast use group_le;
    let n = fs.len() as int;
    let c = concat_filters(fs, n);
    let o = offsets_enc(fs, n);
    let w = le_enc(c.len(), 4);
    let d = filter_block_layout(fs, exponent);
    lemma_offsets_enc_len(fs, n);
    assert(d.len() == c.len() + 4 * n + 5);
    assert(d.subrange(d.len() - 5, d.len() - 1) =~= w);
    assert(fb_start(d) == c.len());
    assert(fb_count(d) == n);
    assert forall|i: int| 0 <= i < n implies #[trigger] fb_off(d, i) == concat_filters(fs, i).len() by {
        lemma_offsets_word(fs, n, i);
        assert(d.subrange(c.len() + 4 * i, c.len() + 4 * i + 4) =~= o.subrange(4 * i, 4 * i + 4));
        lemma_concat_filters_mono(fs, i, n);
    }
    assert forall|i: int, j: int| 0 <= i <= j < n implies #[trigger] fb_off(d, i) <= #[trigger] fb_off(d, j) by {
        lemma_concat_filters_mono(fs, i, j);
    }
    assert forall|i: int| 0 <= i < n implies 0 <= #[trigger] fb_off(d, i) <= fb_start(d) by {
        lemma_concat_filters_mono(fs, i, n);
    }
    assert forall|i: int| 0 <= i < n implies #[trigger] fb_filter(d, i) == fs[i]@ by {
        lemma_concat_piece(fs, n, i);
        let a = concat_filters(fs, i).len() as int; let b = concat_filters(fs, i + 1).len() as int;
        if i + 1 < n { assert(fb_off(d, i + 1) == b); }
        assert(d.subrange(a, b) =~= c.subrange(a, b));
    }
}
