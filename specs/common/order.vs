// ---------------------------------------------------------------------------------------------
// Ghost vocabulary: lexicographic order on byte strings (hand-written specification + lemmas).
// ---------------------------------------------------------------------------------------------
pub open spec fn lex_cmp_from(a: Seq<u8>, b: Seq<u8>, i: int) -> int
    decreases a.len() - i
{
    if i < 0 { 0 }
    else if i >= a.len() && i >= b.len() { 0 }
    else if i >= a.len() { -1 }
    else if i >= b.len() { 1 }
    else if a[i] < b[i] { -1 }
    else if a[i] > b[i] { 1 }
    else { lex_cmp_from(a, b, i + 1) }
}

pub open spec fn lex_cmp(a: Seq<u8>, b: Seq<u8>) -> int { lex_cmp_from(a, b, 0) }
pub open spec fn lex_lt(a: Seq<u8>, b: Seq<u8>) -> bool { lex_cmp(a, b) < 0 }
pub open spec fn lex_le(a: Seq<u8>, b: Seq<u8>) -> bool { lex_cmp(a, b) <= 0 }

pub open spec fn int_to_ord(c: int) -> Ordering {
    if c < 0 { Ordering::Less } else if c == 0 { Ordering::Equal } else { Ordering::Greater }
}

pub proof fn lemma_lex_range(a: Seq<u8>, b: Seq<u8>, i: int)
    ensures -1 <= lex_cmp_from(a, b, i) <= 1
    decreases a.len() - i
{
    if 0 <= i && i < a.len() && i < b.len() && a[i] == b[i] { lemma_lex_range(a, b, i + 1); }
}

pub proof fn lemma_lex_from_eq(a: Seq<u8>, b: Seq<u8>, i: int)
    requires 0 <= i
    ensures (lex_cmp_from(a, b, i) == 0) <==> ((a.len() == b.len() || (i >= a.len() && i >= b.len()))
        && forall|j: int| i <= j < a.len() && j < b.len() ==> a[j] == b[j])
    decreases a.len() - i
{
    if i < a.len() && i < b.len() {
        if a[i] == b[i] {
            lemma_lex_from_eq(a, b, i + 1);
            if lex_cmp_from(a, b, i) == 0 {
                assert forall|j: int| i <= j < a.len() && j < b.len() implies a[j] == b[j] by {
                    if j > i { }
                }
            }
        }
    }
}

pub proof fn lemma_lex_eq(a: Seq<u8>, b: Seq<u8>)
    ensures (lex_cmp(a, b) == 0) <==> (a == b)
{
    lemma_lex_from_eq(a, b, 0);
    if lex_cmp(a, b) == 0 { assert(a =~= b); }
}

pub proof fn lemma_lex_from_antisym(a: Seq<u8>, b: Seq<u8>, i: int)
    ensures lex_cmp_from(a, b, i) == -lex_cmp_from(b, a, i)
    decreases a.len() - i
{
    if 0 <= i && i < a.len() && i < b.len() && a[i] == b[i] { lemma_lex_from_antisym(a, b, i + 1); }
}

pub proof fn lemma_lex_antisym(a: Seq<u8>, b: Seq<u8>)
    ensures lex_cmp(a, b) == -lex_cmp(b, a)
{
    lemma_lex_from_antisym(a, b, 0);
}

pub proof fn lemma_lex_from_trans(a: Seq<u8>, b: Seq<u8>, c: Seq<u8>, i: int)
    requires 0 <= i, lex_cmp_from(a, b, i) <= 0, lex_cmp_from(b, c, i) <= 0
    ensures lex_cmp_from(a, c, i) <= 0,
        (lex_cmp_from(a, b, i) < 0 || lex_cmp_from(b, c, i) < 0) ==> lex_cmp_from(a, c, i) < 0
    decreases a.len() - i
{
    if i < a.len() && i < b.len() && i < c.len() {
        if a[i] == b[i] && b[i] == c[i] { lemma_lex_from_trans(a, b, c, i + 1); }
    }
}

/// a <= b <= c ==> a <= c, strict if either is strict
pub proof fn lemma_lex_trans(a: Seq<u8>, b: Seq<u8>, c: Seq<u8>)
    requires lex_cmp(a, b) <= 0, lex_cmp(b, c) <= 0
    ensures lex_cmp(a, c) <= 0, (lex_cmp(a, b) < 0 || lex_cmp(b, c) < 0) ==> lex_cmp(a, c) < 0
{
    lemma_lex_from_trans(a, b, c, 0);
}

/// Common prefix of length n, then a strictly smaller byte (or a ends): a < b.
pub proof fn lemma_lex_from_first_diff(a: Seq<u8>, b: Seq<u8>, i: int, n: int)
    requires 0 <= i <= n, n <= a.len(), n <= b.len(),
        forall|j: int| i <= j < n ==> a[j] == b[j],
    ensures lex_cmp_from(a, b, i) == lex_cmp_from(a, b, n)
    decreases n - i
{
    if i < n { lemma_lex_from_first_diff(a, b, i + 1, n); }
}
