// ---------------------------------------------------------------------------------------------
// Ghost model for DatabaseIterator (src/iterator.rs): the inner (merging) iterator is a cursor
// over the strictly sorted sequence `es` of internal entries; the client sees, per user key, the
// newest entry at or below the snapshot, if it is a Put.
// ---------------------------------------------------------------------------------------------
// Contract of versioning::file_iterators::MergingIterator as its callers (DatabaseIterator, the
// compaction loop) use it: a cursor over ONE strictly sorted entry list - the cursor contract of
// the RainDbIterator trait (specs/common/iter_trait.vs), written out on inherent methods so that
// `next` / `prev` can carry the precondition the real code needs (the cursor is valid: the real
// `next` unwraps the current entry when it has to turn around).
// ASSUMED IN THIS POSITION, DISCHARGED IN U24: U24 proves the real bodies in (child, position)
// coordinates and the ghost theorems `theorem_*_position` show that those postconditions pin the
// position in any sorted list holding the children's entries, for executions in which no child
// reports a read error (errors are saved, not returned: DESIGN B.3).  Stand-in with a ghost list.
pub struct MergingIterator { pub es: Ghost<Seq<(InternalKey, Seq<u8>)>>, pub idx: Ghost<int> }
impl MergingIterator {
    pub open spec fn it_wf(&self) -> bool {
        forall|i: int, j: int| 0 <= i < j < self.es@.len() ==> ik_lt((#[trigger] self.es@[i]).0, (#[trigger] self.es@[j]).0)
    }
    pub open spec fn it_len(&self) -> int { self.es@.len() as int }
    pub open spec fn it_key(&self, i: int) -> InternalKey { self.es@[i].0 }
    pub open spec fn it_val(&self, i: int) -> Seq<u8> { self.es@[i].1 }
    pub open spec fn it_idx(&self) -> int { self.idx@ }
    #[verifier::external_body]
    pub fn is_valid(&self) -> (r: bool)
        requires self.it_wf(),
        ensures r == (0 <= self.it_idx() < self.it_len()),
    { unimplemented!() }
    #[verifier::external_body]
    pub fn seek(&mut self, target: &InternalKey) -> (r: Result<(), RainDBError>)
        requires old(self).it_wf(),
        ensures
            final(self).it_wf(), final(self).es@ == old(self).es@,
            r is Ok ==> 0 <= final(self).it_idx() <= final(self).it_len()
                && (forall|i: int| 0 <= i < final(self).it_idx() ==> ik_lt(final(self).it_key(i), *target))
                && (final(self).it_idx() < final(self).it_len() ==> !ik_lt(final(self).it_key(final(self).it_idx()), *target)),
    { unimplemented!() }
    // ASSUMED additionally: seek_to_first does not fail.  DatabaseIterator::next ignores its result
    // (`let _seek_result = ...`) when it turns around at the front, so a read error there would
    // end the iteration silently; that error path is outside the contract (see DESIGN B.3).
    #[verifier::external_body]
    pub fn seek_to_first(&mut self) -> (r: Result<(), RainDBError>)
        requires old(self).it_wf(),
        ensures final(self).it_wf(), final(self).es@ == old(self).es@, r is Ok, final(self).it_idx() == 0,
    { unimplemented!() }
    #[verifier::external_body]
    pub fn seek_to_last(&mut self) -> (r: Result<(), RainDBError>)
        requires old(self).it_wf(),
        ensures final(self).it_wf(), final(self).es@ == old(self).es@,
            r is Ok && final(self).it_len() > 0 ==> final(self).it_idx() == final(self).it_len() - 1,
            r is Ok && final(self).it_len() == 0 ==> !(0 <= final(self).it_idx() < final(self).it_len()),
    { unimplemented!() }
    #[verifier::external_body]
    pub fn next(&mut self) -> (r: Option<(&InternalKey, &Vec<u8>)>)
        requires old(self).it_wf(), 0 <= old(self).it_idx() < old(self).it_len(), // [inner-cursor-is-valid-when-stepped-forward]
        ensures
            final(self).it_wf(), final(self).es@ == old(self).es@,
            (old(self).it_idx() < old(self).it_len() - 1) ==> final(self).it_idx() == old(self).it_idx() + 1,
            !(old(self).it_idx() < old(self).it_len() - 1) ==> !(0 <= final(self).it_idx() < final(self).it_len()),
            r is Some <==> (0 <= final(self).it_idx() < final(self).it_len()),
            r matches Some(kv) ==> *kv.0 == final(self).it_key(final(self).it_idx()) && kv.1@ == final(self).it_val(final(self).it_idx()),
    { unimplemented!() }
    #[verifier::external_body]
    pub fn prev(&mut self) -> (r: Option<(&InternalKey, &Vec<u8>)>)
        requires old(self).it_wf(), 0 <= old(self).it_idx() < old(self).it_len(), // [inner-cursor-is-valid-when-stepped-backward]
        ensures
            final(self).it_wf(), final(self).es@ == old(self).es@,
            (0 < old(self).it_idx()) ==> final(self).it_idx() == old(self).it_idx() - 1,
            !(0 < old(self).it_idx()) ==> !(0 <= final(self).it_idx() < final(self).it_len()),
            r is Some <==> (0 <= final(self).it_idx() < final(self).it_len()),
            r matches Some(kv) ==> *kv.0 == final(self).it_key(final(self).it_idx()) && kv.1@ == final(self).it_val(final(self).it_idx()),
    { unimplemented!() }
    #[verifier::external_body]
    pub fn current(&self) -> (r: Option<(&InternalKey, &Vec<u8>)>)
        requires self.it_wf(),
        ensures
            r is Some <==> (0 <= self.it_idx() < self.it_len()),
            r matches Some(kv) ==> *kv.0 == self.it_key(self.it_idx()) && kv.1@ == self.it_val(self.it_idx()),
    { unimplemented!() }
}

pub open spec fn e_user(es: Seq<(InternalKey, Seq<u8>)>, i: int) -> Seq<u8> { es[i].0.user_key@ }
pub open spec fn e_seq(es: Seq<(InternalKey, Seq<u8>)>, i: int) -> u64 { es[i].0.sequence_number }

/// every earlier entry of the same user key is newer than the snapshot
pub open spec fn hidden_before(es: Seq<(InternalKey, Seq<u8>)>, s: u64, p: int) -> bool {
    forall|q: int| 0 <= q < p && #[trigger] e_user(es, q) == e_user(es, p) ==> e_seq(es, q) > s
}
/// entry p is what a client sees for its user key at snapshot s: the newest entry at or below
/// the snapshot, and it is a Put
pub open spec fn shown_at(es: Seq<(InternalKey, Seq<u8>)>, s: u64, p: int) -> bool {
    0 <= p < es.len() && e_seq(es, p) <= s && es[p].0.operation == Operation::Put && hidden_before(es, s, p)
}
/// p is shown and (when a lower bound is given) its user key is strictly above the bound
pub open spec fn shown_above(es: Seq<(InternalKey, Seq<u8>)>, s: u64, above: Option<Seq<u8>>, p: int) -> bool {
    shown_at(es, s, p) && (above is Some ==> lex_lt(above.unwrap(), e_user(es, p)))
}

pub proof fn lemma_es_users_monotone(it: &MergingIterator, i: int, j: int)
    requires it.it_wf(), 0 <= i <= j < it.es@.len()
    ensures lex_le(e_user(it.es@, i), e_user(it.es@, j)),
        e_user(it.es@, i) == e_user(it.es@, j) && i < j ==> e_seq(it.es@, i) > e_seq(it.es@, j),
{
    if i < j {
        assert(ik_lt(it.es@[i].0, it.es@[j].0));
        lemma_ik_user_order(it.es@[i].0, it.es@[j].0);
        lemma_lex_eq(e_user(it.es@, i), e_user(it.es@, j));
    } else {
        lemma_lex_eq(e_user(it.es@, i), e_user(it.es@, i));
    }
}
