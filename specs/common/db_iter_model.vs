// ---------------------------------------------------------------------------------------------
// Ghost model for DatabaseIterator (src/iterator.rs): the inner (merging) iterator is a cursor
// over the strictly sorted sequence `es` of internal entries; the client sees, per user key, the
// newest entry at or below the snapshot, if it is a Put.
// ---------------------------------------------------------------------------------------------
// ASSUMED (contract of versioning::file_iterators::MergingIterator, which this Verus build does
// not ingest - `.iter().enumerate()` / `.rev()`): it satisfies the RainDbIterator cursor contract
// over the sorted union of its children.  Stand-in with a ghost entry list.
pub struct MergingIterator { pub es: Ghost<Seq<(InternalKey, Seq<u8>)>>, pub idx: Ghost<int> }
impl RainDbIterator for MergingIterator {
    type Key = InternalKey;
    type Error = RainDBError;
    open spec fn it_wf(&self) -> bool {
        key_order_ok::<InternalKey>() && forall|i: int, j: int| 0 <= i < j < self.es@.len() ==> key_lt(&(#[trigger] self.es@[i]).0, &(#[trigger] self.es@[j]).0)
    }
    open spec fn it_len(&self) -> int { self.es@.len() as int }
    open spec fn it_key(&self, i: int) -> InternalKey { self.es@[i].0 }
    open spec fn it_val(&self, i: int) -> Seq<u8> { self.es@[i].1 }
    open spec fn it_idx(&self) -> int { self.idx@ }
    #[verifier::external_body]
    fn is_valid(&self) -> (r: bool) { unimplemented!() }
    #[verifier::external_body]
    fn seek(&mut self, target: &InternalKey) -> (r: Result<(), RainDBError>) { unimplemented!() }
    // ASSUMED additionally: seek_to_first does not fail.  DatabaseIterator::next ignores its result
    // (`let _seek_result = ...`) when it turns around at the front, so a read error there would
    // end the iteration silently; that error path is outside the contract (see DESIGN B.3).
    #[verifier::external_body]
    fn seek_to_first(&mut self) -> (r: Result<(), RainDBError>) ensures r is Ok { unimplemented!() }
    #[verifier::external_body]
    fn seek_to_last(&mut self) -> (r: Result<(), RainDBError>) { unimplemented!() }
    #[verifier::external_body]
    fn next(&mut self) -> (r: Option<(&InternalKey, &Vec<u8>)>) { unimplemented!() }
    #[verifier::external_body]
    fn prev(&mut self) -> (r: Option<(&InternalKey, &Vec<u8>)>) { unimplemented!() }
    #[verifier::external_body]
    fn current(&self) -> (r: Option<(&InternalKey, &Vec<u8>)>) { unimplemented!() }
}

pub open spec fn e_user(es: Seq<(InternalKey, Seq<u8>)>, i: int) -> Seq<u8> { es[i].0.user_key@ }
pub open spec fn e_seq(es: Seq<(InternalKey, Seq<u8>)>, i: int) -> u64 { es[i].0.sequence_number }

/// every earlier entry of the same user key is newer than the snapshot
pub open spec fn hidden_before(es: Seq<(InternalKey, Seq<u8>)>, s: u64, p: int) -> bool {
    forall|q: int| 0 <= q < p && #[trigger] e_user(es, q) == e_user(es, p) ==> e_seq(es, q) > s
}
/// entry p is what a client sees for its user key at snapshot s: the newest entry at or below
/// the snapshot, and it is a Put
pub open spec fn shown_at(es: Seq<(InternalKey, Seq<u8>)>, s: u64, p: int) -> bool {
    0 <= p < es.len() && e_seq(es, p) <= s && es[p].0.operation == Operation::Put && hidden_before(es, s, p)
}
/// p is shown and (when a lower bound is given) its user key is strictly above the bound
pub open spec fn shown_above(es: Seq<(InternalKey, Seq<u8>)>, s: u64, above: Option<Seq<u8>>, p: int) -> bool {
    shown_at(es, s, p) && (above is Some ==> lex_lt(above.unwrap(), e_user(es, p)))
}

pub proof fn lemma_es_users_monotone(it: &MergingIterator, i: int, j: int)
    requires it.it_wf(), 0 <= i <= j < it.es@.len()
    ensures lex_le(e_user(it.es@, i), e_user(it.es@, j)),
        e_user(it.es@, i) == e_user(it.es@, j) && i < j ==> e_seq(it.es@, i) > e_seq(it.es@, j),
{
    if i < j {
        assert(key_lt(&it.es@[i].0, &it.es@[j].0));
        lemma_ik_user_order(it.es@[i].0, it.es@[j].0);
        lemma_lex_eq(e_user(it.es@, i), e_user(it.es@, j));
    } else {
        lemma_lex_eq(e_user(it.es@, i), e_user(it.es@, i));
    }
}
