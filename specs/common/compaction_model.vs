// ---------------------------------------------------------------------------------------------
// Ghost model of the drop decision of a table compaction (src/compaction/worker.rs,
// compact_tables): the merged input is the strictly sorted entry sequence `es` of the merging
// iterator; `sm` is the retention bound (the oldest live snapshot, or the last sequence number).
// ---------------------------------------------------------------------------------------------
/// sequence number of the previous entry if it has the same user key, else "none seen" (MAX)
pub open spec fn prev_of(es: Seq<(InternalKey, Seq<u8>)>, i: int) -> u64 {
    if i > 0 && e_user(es, i - 1) == e_user(es, i) { e_seq(es, i - 1) } else { MAX_SEQUENCE_NUMBER }
}
/// C03 mechanism 2 / C07 mechanism 2, as a rule: an entry is dropped iff a newer entry of the
/// same user key is already at or below the retention bound, or it is a tombstone at or below
/// the bound and no deeper level can hold the key.
pub open spec fn drop_rule(prev_seq: u64, sm: u64, key: InternalKey, nothing_deeper: bool) -> bool {
    prev_seq <= sm || (key.operation == Operation::Delete && key.sequence_number <= sm && nothing_deeper)
}
pub open spec fn dropped(es: Seq<(InternalKey, Seq<u8>)>, sm: u64, deeper: spec_fn(Seq<u8>) -> bool, i: int) -> bool {
    drop_rule(prev_of(es, i), sm, es[i].0, !deeper(e_user(es, i)))
}
/// what the loop variables hold before entry i is looked at
pub open spec fn tracks_prev(es: Seq<(InternalKey, Seq<u8>)>, i: int, cur: Option<Vec<u8>>, last: u64) -> bool {
    (i == 0 ==> cur is None) && (i > 0 ==> cur is Some && cur.unwrap()@ == e_user(es, i - 1) && last == e_seq(es, i - 1))
}

/// What a compaction's drop decisions `d` (d(i): entry i is not written out) must satisfy for
/// snapshot views to survive: only what the rule allows is dropped, and every entry shadowed at
/// or below the bound IS dropped (otherwise a dropped tombstone would let it resurface).
/// Keeping an obsolete tombstone is allowed.
pub open spec fn drops_ok(es: Seq<(InternalKey, Seq<u8>)>, sm: u64, deeper: spec_fn(Seq<u8>) -> bool, d: spec_fn(int) -> bool) -> bool {
    forall|i: int| 0 <= i < es.len() ==> (#[trigger] d(i) ==> dropped(es, sm, deeper, i)) && (prev_of(es, i) <= sm ==> d(i))
}

/// entry i is the newest entry of its user key at or below snapshot s in the INPUT
pub open spec fn newest_at(es: Seq<(InternalKey, Seq<u8>)>, s: u64, i: int) -> bool {
    0 <= i < es.len() && e_seq(es, i) <= s && hidden_before(es, s, i)
}
/// ... in the OUTPUT (only entries that were kept count)
pub open spec fn newest_kept_at(es: Seq<(InternalKey, Seq<u8>)>, d: spec_fn(int) -> bool, s: u64, i: int) -> bool {
    0 <= i < es.len() && e_seq(es, i) <= s && !d(i)
    && forall|q: int| 0 <= q < i && #[trigger] e_user(es, q) == e_user(es, i) && !d(q) ==> e_seq(es, q) > s
}

pub open spec fn es_sorted(es: Seq<(InternalKey, Seq<u8>)>) -> bool {
    forall|i: int, j: int| 0 <= i < j < es.len() ==> ik_lt(#[trigger] es[i].0, #[trigger] es[j].0)
}

pub proof fn lemma_sorted_users(es: Seq<(InternalKey, Seq<u8>)>, i: int, j: int)
    requires es_sorted(es), 0 <= i <= j < es.len()
    ensures lex_le(e_user(es, i), e_user(es, j)),
        e_user(es, i) == e_user(es, j) && i < j ==> e_seq(es, i) > e_seq(es, j),
{
    if i < j {
        assert(ik_lt(es[i].0, es[j].0));
        lemma_ik_user_order(es[i].0, es[j].0);
        lemma_lex_eq(e_user(es, i), e_user(es, j));
    } else {
        lemma_lex_eq(e_user(es, i), e_user(es, i));
    }
}
/// entries of one user key are contiguous
pub proof fn lemma_sorted_run(es: Seq<(InternalKey, Seq<u8>)>, i: int, m: int, j: int)
    requires es_sorted(es), 0 <= i <= m <= j < es.len(), e_user(es, i) == e_user(es, j)
    ensures e_user(es, m) == e_user(es, i)
{
    lemma_sorted_users(es, i, m);
    lemma_sorted_users(es, m, j);
    lemma_lex_antisym(e_user(es, i), e_user(es, m));
    lemma_lex_eq(e_user(es, i), e_user(es, m));
}

/// Once an entry of a user key is at or below the retention bound, every older entry of that
/// key is shadowed at or below the bound.
pub proof fn lemma_older_entries_are_shadowed(es: Seq<(InternalKey, Seq<u8>)>, sm: u64, i: int, j: int)
    requires es_sorted(es), 0 <= i < j < es.len(), e_user(es, i) == e_user(es, j), e_seq(es, i) <= sm
    ensures prev_of(es, j) <= sm
{
    lemma_sorted_run(es, i, j - 1, j);
    if i < j - 1 { lemma_sorted_users(es, i, j - 1); }
}

/// THEOREM (C03 / C07, compaction keeps every snapshot view): for a snapshot s at or above the
/// retention bound, (1) the newest entry of a user key at or below s is kept, unless it is a
/// tombstone with nothing deeper - and then every older entry of that key is dropped with it, so
/// the key reads as absent, which is what the tombstone said; (2) a kept entry is the newest
/// kept entry of its key at or below s exactly when it was the newest one in the input.
pub proof fn theorem_compaction_keeps_snapshot_views(es: Seq<(InternalKey, Seq<u8>)>, sm: u64, deeper: spec_fn(Seq<u8>) -> bool, d: spec_fn(int) -> bool, s: u64)
    requires es_sorted(es), sm <= s, sm < MAX_SEQUENCE_NUMBER, drops_ok(es, sm, deeper, d),
    ensures
        forall|i: int| #[trigger] newest_at(es, s, i) && d(i) ==>
            es[i].0.operation == Operation::Delete && !deeper(e_user(es, i))
            && forall|j: int| i < j < es.len() && #[trigger] e_user(es, j) == e_user(es, i) ==> d(j),
        forall|i: int| 0 <= i < es.len() && !d(i) ==>
            (#[trigger] newest_kept_at(es, d, s, i) <==> newest_at(es, s, i)),
{
    assert forall|i: int| #[trigger] newest_at(es, s, i) && d(i) implies
        es[i].0.operation == Operation::Delete && !deeper(e_user(es, i))
        && forall|j: int| i < j < es.len() && #[trigger] e_user(es, j) == e_user(es, i) ==> d(j) by {
        // rule 1 cannot apply: the previous entry of the same key is newer than s >= sm
        if i > 0 && e_user(es, i - 1) == e_user(es, i) { assert(e_seq(es, i - 1) > s); }
        assert(!(prev_of(es, i) <= sm));
        assert(dropped(es, sm, deeper, i));
        assert forall|j: int| i < j < es.len() && #[trigger] e_user(es, j) == e_user(es, i) implies d(j) by {
            lemma_older_entries_are_shadowed(es, sm, i, j);
        }
    }
    assert forall|i: int| 0 <= i < es.len() && !d(i) implies
        (#[trigger] newest_kept_at(es, d, s, i) <==> newest_at(es, s, i)) by {
        if newest_kept_at(es, d, s, i) && !newest_at(es, s, i) {
            // some earlier (newer) entry q of the key is at or below s; take the newest such entry
            let q = choose|q: int| 0 <= q < i && #[trigger] e_user(es, q) == e_user(es, i) && !(e_seq(es, q) > s);
            lemma_first_at_or_below(es, s, q);
            let f = choose|f: int| 0 <= f <= q && e_user(es, f) == e_user(es, q) && newest_at(es, s, f);
            // it was dropped (i is the newest KEPT one), so by (1) everything older is dropped - including i
            assert(d(f));
            if f > 0 && e_user(es, f - 1) == e_user(es, f) { assert(e_seq(es, f - 1) > s); }
            assert(dropped(es, sm, deeper, f));
            assert(e_seq(es, f) <= sm);
            lemma_older_entries_are_shadowed(es, sm, f, i);
            assert(false);
        }
    }
}

/// among the entries of q's user key at or below s there is a first (newest) one
pub proof fn lemma_first_at_or_below(es: Seq<(InternalKey, Seq<u8>)>, s: u64, q: int)
    requires 0 <= q < es.len(), e_seq(es, q) <= s
    ensures exists|f: int| 0 <= f <= q && e_user(es, f) == e_user(es, q) && newest_at(es, s, f)
    decreases q
{
    if hidden_before(es, s, q) {
        assert(newest_at(es, s, q));
    } else {
        let p = choose|p: int| 0 <= p < q && #[trigger] e_user(es, p) == e_user(es, q) && !(e_seq(es, p) > s);
        lemma_first_at_or_below(es, s, p);
        let f = choose|f: int| 0 <= f <= p && e_user(es, f) == e_user(es, p) && newest_at(es, s, f);
        assert(0 <= f <= q && e_user(es, f) == e_user(es, q) && newest_at(es, s, f));
    }
}
