// ---------------------------------------------------------------------------------------------
// A block as stored in a table file: payload ++ [compression code] ++ fixed32(masked crc32c of
// payload ++ code)   (src/tables/table_builder.rs emit_block_to_disk, src/tables/table.rs
// read_block_from_disk).
// ---------------------------------------------------------------------------------------------
pub open spec fn blk_frame(payload: Seq<u8>, code: u8) -> Seq<u8> {
    payload + seq![code] + le_enc(spec_mask(spec_crc(payload + seq![code])) as nat, 4)
}
/// Integrity evidence of the block stored at `h`: contents ++ compression byte are covered by
/// the masked CRC32C that follows them (C15 mechanism 1).
pub open spec fn block_crc_ok(f: Seq<u8>, h: &BlockHandle) -> bool {
    let off = h.offset as int;
    let n = h.size as int;
    off + n + 5 <= f.len()
        && spec_crc(f.subrange(off, off + n + 1)) == spec_unmask(le_dec(f.subrange(off + n + 1, off + n + 5)) as u32)
}
/// what the reader returns for the block at `h` (after the CRC check): the payload, decompressed if coded 1
pub open spec fn block_read_back(f: Seq<u8>, h: &BlockHandle) -> Seq<u8> {
    let off = h.offset as int;
    let n = h.size as int;
    if f[off + n] == 0 { f.subrange(off, off + n) } else { snap_decode(f.subrange(off, off + n)) }
}
/// ROUND TRIP at the block level (C13 / C15): a frame written at offset `pre.len()` passes the
/// reader's CRC comparison and reads back as the payload (decompressed if it was compressed).
pub proof fn lemma_frame_reads_back(pre: Seq<u8>, payload: Seq<u8>, code: u8, post: Seq<u8>, h: &BlockHandle)
    requires h.offset == pre.len(), h.size == payload.len(), code <= 1
    ensures ({
        let f = pre + blk_frame(payload, code) + post;
        &&& block_crc_ok(f, h)
        &&& f[h.offset + h.size] == code
        &&& code == 0 ==> block_read_back(f, h) == payload
        &&& code == 1 ==> block_read_back(f, h) == snap_decode(payload)
    }),
{
    broadcast use group_le;
    let f = pre + blk_frame(payload, code) + post;
    let off = pre.len() as int; let n = payload.len() as int;
    let c = spec_mask(spec_crc(payload + seq![code]));
    assert(f.subrange(off, off + n + 1) =~= payload + seq![code]);
    assert(f.subrange(off + n + 1, off + n + 5) =~= le_enc(c as nat, 4));
    assert(f.subrange(off, off + n) =~= payload);
    lemma_unmask_mask(spec_crc(payload + seq![code]));
}
