// ---------------------------------------------------------------------------------------------
// Ghost model of the block format (src/tables/block_builder.rs, src/tables/block.rs): a run of
// prefix-compressed entries  varint32(shared) varint32(unshared) varint32(value_len) key_delta value
// followed by the restart array (fixed32 offsets) and fixed32(count).
// ---------------------------------------------------------------------------------------------
pub struct GEntry { pub key: Seq<u8>, pub val: Seq<u8> }

pub open spec fn min_int(a: int, b: int) -> int { if a <= b { a } else { b } }

/// one entry at the front of `s` given the previous full key: Some((entry, shared, consumed))
#[verifier::opaque]
pub open spec fn ent_step(s: Seq<u8>, prev: Seq<u8>) -> Option<(GEntry, u64, int)> {
    match var_dec(s) {
        None => None,
        Some(a) => if a.0 > u32::MAX { None } else { match var_dec(s.subrange(a.1, s.len() as int)) {
            None => None,
            Some(b) => if b.0 > u32::MAX { None } else { match var_dec(s.subrange(a.1 + b.1, s.len() as int)) {
                None => None,
                Some(c) => if c.0 > u32::MAX { None } else {
                    let o = a.1 + b.1 + c.1;
                    if o + b.0 + c.0 <= s.len() {
                        Some((GEntry { key: prev.take(min_int(a.0 as int, prev.len() as int)) + s.subrange(o, o + b.0 as int),
                                       val: s.subrange(o + b.0 as int, o + b.0 as int + c.0 as int) },
                              a.0, o + b.0 as int + c.0 as int))
                    } else { None }
                },
            } },
        } },
    }
}
/// all entries of an entries region
pub open spec fn ents_dec(s: Seq<u8>, prev: Seq<u8>) -> Option<Seq<GEntry>>
    decreases s.len()
{
    if s.len() == 0 { Some(Seq::empty()) } else {
        match ent_step(s, prev) {
            None => None,
            Some(p) => if 0 < p.2 <= s.len() {
                match ents_dec(s.subrange(p.2, s.len() as int), p.0.key) {
                    None => None,
                    Some(rest) => Some(seq![p.0] + rest),
                }
            } else { None },
        }
    }
}

/// (offset, shared-byte count) of every entry of an entries region that starts at offset `base`
pub open spec fn ents_meta(s: Seq<u8>, prev: Seq<u8>, base: int) -> Seq<(int, u64)>
    decreases s.len()
{
    if s.len() == 0 { Seq::empty() } else {
        match ent_step(s, prev) {
            None => Seq::empty(),
            Some(p) => if 0 < p.2 <= s.len() { seq![(base, p.1)] + ents_meta(s.subrange(p.2, s.len() as int), p.0.key, base + p.2) } else { Seq::empty() },
        }
    }
}
/// the reader's matching of restart offsets against entries: index into `offs` after the first k entries
pub open spec fn rs_idx(meta: Seq<(int, u64)>, offs: Seq<u32>, k: int) -> int
    decreases k
{
    if k <= 0 { 0 } else {
        let g = rs_idx(meta, offs, k - 1);
        if g < offs.len() && meta[k - 1].0 == offs[g] as int && meta[k - 1].1 == 0 { g + 1 } else { g }
    }
}
/// every restart offset is matched by an entry (what the reader checks before accepting a block)
pub open spec fn restarts_match(meta: Seq<(int, u64)>, offs: Seq<u32>) -> bool { rs_idx(meta, offs, meta.len() as int) == offs.len() }

/// the parts of a successfully decoded entry (ent_step is opaque to keep the callers' queries small)
pub proof fn lemma_ent_step_parts(s: Seq<u8>, prev: Seq<u8>)
    requires ent_step(s, prev) is Some
    ensures ({
        let a = var_dec(s).unwrap(); let b = var_dec(s.subrange(a.1, s.len() as int)).unwrap();
        let c = var_dec(s.subrange(a.1 + b.1, s.len() as int)).unwrap(); let o = a.1 + b.1 + c.1;
        let p = ent_step(s, prev).unwrap();
        &&& var_dec(s) is Some && var_dec(s.subrange(a.1, s.len() as int)) is Some && var_dec(s.subrange(a.1 + b.1, s.len() as int)) is Some
        &&& a.0 <= u32::MAX && b.0 <= u32::MAX && c.0 <= u32::MAX && o + b.0 + c.0 <= s.len()
        &&& a.1 >= 1 && b.1 >= 1 && c.1 >= 1
        &&& p.0.key == prev.take(min_int(a.0 as int, prev.len() as int)) + s.subrange(o, o + b.0 as int)
        &&& p.0.val == s.subrange(o + b.0 as int, o + b.0 as int + c.0 as int)
        &&& p.1 == a.0 && p.2 == o + b.0 as int + c.0 as int
    }),
{
    broadcast use group_varint;
    reveal(ent_step);
}
