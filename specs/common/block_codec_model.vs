// ---------------------------------------------------------------------------------------------
// Ghost model of the block format (src/tables/block_builder.rs, src/tables/block.rs): a run of
// prefix-compressed entries  varint32(shared) varint32(unshared) varint32(value_len) key_delta value
// followed by the restart array (fixed32 offsets) and fixed32(count).
// ---------------------------------------------------------------------------------------------
pub struct GEntry { pub key: Seq<u8>, pub val: Seq<u8> }

pub open spec fn min_int(a: int, b: int) -> int { if a <= b { a } else { b } }

/// one entry at the front of `s` given the previous full key: Some((entry, shared, consumed))
pub open spec fn ent_step(s: Seq<u8>, prev: Seq<u8>) -> Option<(GEntry, u64, int)> {
    match var_dec(s) {
        None => None,
        Some(a) => if a.0 > u32::MAX { None } else { match var_dec(s.subrange(a.1, s.len() as int)) {
            None => None,
            Some(b) => if b.0 > u32::MAX { None } else { match var_dec(s.subrange(a.1 + b.1, s.len() as int)) {
                None => None,
                Some(c) => if c.0 > u32::MAX { None } else {
                    let o = a.1 + b.1 + c.1;
                    if o + b.0 + c.0 <= s.len() {
                        Some((GEntry { key: prev.take(min_int(a.0 as int, prev.len() as int)) + s.subrange(o, o + b.0 as int),
                                       val: s.subrange(o + b.0 as int, o + b.0 as int + c.0 as int) },
                              a.0, o + b.0 as int + c.0 as int))
                    } else { None }
                },
            } },
        } },
    }
}
/// all entries of an entries region
pub open spec fn ents_dec(s: Seq<u8>, prev: Seq<u8>) -> Option<Seq<GEntry>>
    decreases s.len()
{
    if s.len() == 0 { Some(Seq::empty()) } else {
        match ent_step(s, prev) {
            None => None,
            Some(p) => if 0 < p.2 <= s.len() {
                match ents_dec(s.subrange(p.2, s.len() as int), p.0.key) {
                    None => None,
                    Some(rest) => Some(seq![p.0] + rest),
                }
            } else { None },
        }
    }
}
