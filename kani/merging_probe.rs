// throw-away probe: how expensive is the smallest possible MergingIterator harness?
use super::*;
use crate::key::InternalKey;
use crate::Operation;
#[path = "merging_child.rs"]
mod child;
use child::VecIter;

#[kani::proof]
#[kani::unwind(4)]
fn merging_probe_concrete() {
    let a = vec![(InternalKey::new(vec![1u8], 1, Operation::Put), vec![])];
    let b = vec![(InternalKey::new(vec![2u8], 1, Operation::Put), vec![])];
    let children: Vec<Box<dyn RainDbIterator<Key = InternalKey, Error = RainDBError>>> = vec![
        Box::new(VecIter { entries: a, idx: 1 }),
        Box::new(VecIter { entries: b, idx: 1 }),
    ];
    let mut it = MergingIterator::new(children);
    it.seek_to_first().unwrap();
    assert!(it.is_valid());
    assert!(it.current().unwrap().0.get_user_key()[0] == 1);
    it.next();
    assert!(it.is_valid());
    assert!(it.current().unwrap().0.get_user_key()[0] == 2);
}
