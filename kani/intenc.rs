// Kani harnesses (role 1, DESIGN.md 2.4): they DISCHARGE the assumed dependency contracts of
// prelude/intenc.rs and prelude/varint.rs against the vendored integer_encoding crate, and
// re-check two crate-internal leaf facts.  Injected into a scratch copy of raindb as
// `#[cfg(kani)] mod verif_kani_intenc;` - never into /repo.
use integer_encoding::{FixedInt, VarInt};

/// A-intenc: u16 fixed encoding is the little-endian byte string and decoding inverts it.
#[kani::proof]
fn fixed_u16_is_le_and_roundtrips() {
    let x: u16 = kani::any();
    let v = x.encode_fixed_vec();
    assert!(v.len() == 2);
    assert!(v[0] == x.to_le_bytes()[0] && v[1] == x.to_le_bytes()[1]);
    assert!(u16::decode_fixed(&v) == x);
    let b: [u8; 2] = kani::any();
    let y = u16::decode_fixed(&b);
    assert!(y.encode_fixed_vec()[..] == b[..]);
}

#[kani::proof]
fn fixed_u32_is_le_and_roundtrips() {
    let x: u32 = kani::any();
    let v = x.encode_fixed_vec();
    assert!(v.len() == 4);
    assert!(v[..] == x.to_le_bytes()[..]);
    assert!(u32::decode_fixed(&v) == x);
    let b: [u8; 4] = kani::any();
    assert!(u32::decode_fixed(&b).encode_fixed_vec()[..] == b[..]);
}

#[kani::proof]
fn fixed_u64_is_le_and_roundtrips() {
    let x: u64 = kani::any();
    let v = x.encode_fixed_vec();
    assert!(v.len() == 8);
    assert!(v[..] == x.to_le_bytes()[..]);
    assert!(u64::decode_fixed(&v) == x);
    let b: [u8; 8] = kani::any();
    assert!(u64::decode_fixed(&b).encode_fixed_vec()[..] == b[..]);
}

/// A-intenc (varint): encode then decode (with arbitrary trailing bytes) gives the value back
/// and consumes exactly the encoding; the encoding has 1..=10 bytes.  Loops are bounded by the
/// operand width (10 groups of 7 bits), unwinding assertions on => complete.
#[kani::proof]
#[kani::unwind(12)]
fn varint_u64_roundtrips() {
    let x: u64 = kani::any();
    let mut v = x.encode_var_vec();
    let n = v.len();
    assert!(1 <= n && n <= 10);
    let extra: u8 = kani::any();
    v.push(extra);
    let r = u64::decode_var(&v);
    assert!(r == Some((x, n)));
}

/// U01 cross-check: unmask(mask(c)) == c for every u32 (also proved in Verus by bit_vector).
#[kani::proof]
fn crc_unmask_inverts_mask() {
    let c: u32 = kani::any();
    assert!(crate::utils::crc::unmask_checksum(crate::utils::crc::mask_checksum(c)) == c);
}
