// Injected as a CHILD module of src/filter_policy.rs in a scratch copy (needs the private field).
use super::*;

/// BloomFilterPolicy::new (floating point, outside Verus): 1 <= k <= 30 for every bits_per_key
/// - the representation invariant `bloom_wf` that U06 takes as a precondition.
#[kani::proof]
fn bloom_policy_new_establishes_probe_count_range() {
    let b: usize = kani::any();
    let p = BloomFilterPolicy::new(b);
    let k = p.num_hash_functions;
    assert!(1 <= k && k <= 30);
}
