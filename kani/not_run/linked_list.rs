// Injected as a CHILD module of src/utils/linked_list.rs in a scratch copy.
// BOUNDED stand-in (never counted as proved) for the ASSUMED list contract of U32 / U46 / U53 / U62:
// lists of exactly 3 pushed elements, ONE removal of a symbolically chosen node, then one more push -
// `head` / `tail` / `len` / the iteration order are those of the sequence model.
use super::*;

fn elems(l: &LinkedList<u8>) -> [u8; 4] {
    // at most 4 elements in this harness; 0xff = none
    let mut out = [0xffu8; 4];
    let mut i = 0usize;
    let mut it = l.iter();
    while i < 4 {
        match it.next() {
            Some(n) => { out[i] = n.read().element; }
            None => break,
        }
        i += 1;
    }
    out
}

#[kani::proof]
#[kani::unwind(6)]
fn linked_list_matches_the_sequence_model() {
    let mut l = LinkedList::<u8>::new();
    let a = l.push(1);
    let b = l.push(2);
    let c = l.push(3);
    assert!(l.len() == 3);
    assert!(Arc::ptr_eq(&l.head().unwrap(), &a) && Arc::ptr_eq(&l.tail().unwrap(), &c));
    let which: u8 = kani::any();
    kani::assume(which < 3);
    let target = if which == 0 { Arc::clone(&a) } else if which == 1 { Arc::clone(&b) } else { Arc::clone(&c) };
    l.remove_node(target);
    assert!(l.len() == 2);
    let e = elems(&l);
    if which == 0 { assert!(e[0] == 2 && e[1] == 3 && e[2] == 0xff); assert!(Arc::ptr_eq(&l.head().unwrap(), &b) && Arc::ptr_eq(&l.tail().unwrap(), &c)); }
    if which == 1 { assert!(e[0] == 1 && e[1] == 3 && e[2] == 0xff); assert!(Arc::ptr_eq(&l.head().unwrap(), &a) && Arc::ptr_eq(&l.tail().unwrap(), &c)); }
    if which == 2 { assert!(e[0] == 1 && e[1] == 2 && e[2] == 0xff); assert!(Arc::ptr_eq(&l.head().unwrap(), &a) && Arc::ptr_eq(&l.tail().unwrap(), &b)); }
    let d = l.push(4);
    assert!(l.len() == 3 && Arc::ptr_eq(&l.tail().unwrap(), &d));
    let e2 = elems(&l);
    assert!(e2[2] == 4 && e2[3] == 0xff);
    // the list's Drop (pop_front until empty) is not part of the model: leak it
    core::mem::forget(l);
}
