// Injected as a CHILD module of src/versioning/file_iterators.rs in a scratch copy.
// BOUNDED stand-in (never counted as proved): the k-way merge of MergingIterator over 2 children
// with at most 2 and 1 entries (one-byte user keys < 3, sequence numbers < 2), driven by a
// symbolic sequence of 2 cursor moves after a symbolic initial positioning, compared after every
// step with a cursor on the sorted union.
use super::*;
use crate::key::InternalKey;
use crate::Operation;

struct VecIter {
    entries: Vec<(InternalKey, Vec<u8>)>,
    /// entries.len() = invalid
    idx: usize,
}

impl RainDbIterator for VecIter {
    type Key = InternalKey;
    type Error = RainDBError;
    fn is_valid(&self) -> bool {
        self.idx < self.entries.len()
    }
    fn seek(&mut self, target: &InternalKey) -> Result<(), RainDBError> {
        let mut i = 0;
        while i < self.entries.len() && self.entries[i].0 < *target {
            i += 1;
        }
        self.idx = i;
        Ok(())
    }
    fn seek_to_first(&mut self) -> Result<(), RainDBError> {
        self.idx = 0;
        Ok(())
    }
    fn seek_to_last(&mut self) -> Result<(), RainDBError> {
        self.idx = if self.entries.is_empty() { 0 } else { self.entries.len() - 1 };
        Ok(())
    }
    fn next(&mut self) -> Option<(&InternalKey, &Vec<u8>)> {
        if self.idx < self.entries.len() {
            self.idx += 1;
        }
        self.current()
    }
    fn prev(&mut self) -> Option<(&InternalKey, &Vec<u8>)> {
        if self.idx == 0 || self.idx >= self.entries.len() {
            self.idx = self.entries.len();
        } else {
            self.idx -= 1;
        }
        self.current()
    }
    fn current(&self) -> Option<(&InternalKey, &Vec<u8>)> {
        if self.idx < self.entries.len() {
            Some((&self.entries[self.idx].0, &self.entries[self.idx].1))
        } else {
            None
        }
    }
}

fn any_key() -> InternalKey {
    let u: u8 = kani::any();
    let s: u8 = kani::any();
    kani::assume(u < 3 && s < 2);
    InternalKey::new(vec![u], s as u64, Operation::Put)
}

/// a sorted child with at most `max` (<= 2) entries
fn any_child(max: u8) -> Vec<(InternalKey, Vec<u8>)> {
    let n: u8 = kani::any();
    kani::assume(n <= max);
    let mut v = vec![];
    if n >= 1 {
        v.push((any_key(), vec![]));
    }
    if n >= 2 {
        let k = any_key();
        kani::assume(v[0].0 < k);
        v.push((k, vec![]));
    }
    v
}

#[kani::proof]
#[kani::unwind(5)]
fn merging_iterator_follows_sorted_union_bounded() {
    let a = any_child(2);
    let b = any_child(1);
    // the union, sorted; keys of different children are distinct
    let mut all: Vec<InternalKey> = vec![];
    for (k, _) in a.iter() {
        all.push(k.clone());
    }
    for (k, _) in b.iter() {
        for (ka, _) in a.iter() {
            kani::assume(*ka != *k);
        }
        all.push(k.clone());
    }
    // insertion sort (at most 4 elements)
    let mut i = 1;
    while i < all.len() {
        let mut j = i;
        while j > 0 && all[j] < all[j - 1] {
            all.swap(j, j - 1);
            j -= 1;
        }
        i += 1;
    }
    let n = all.len();
    let la = a.len();
    let lb = b.len();
    let children: Vec<Box<dyn RainDbIterator<Key = InternalKey, Error = RainDBError>>> = vec![
        Box::new(VecIter { entries: a, idx: la }),
        Box::new(VecIter { entries: b, idx: lb }),
    ];
    let mut it = MergingIterator::new(children);
    // model cursor: n = invalid
    let mut pos: usize;
    let start: u8 = kani::any();
    kani::assume(start < 3);
    if start == 0 {
        it.seek_to_first().unwrap();
        pos = if n == 0 { n } else { 0 };
    } else if start == 1 {
        if n == 0 {
            return; // (seek_to_last on an empty child list element is outside the cursor contract)
        }
        it.seek_to_last().unwrap();
        pos = n - 1;
    } else {
        let t = any_key();
        it.seek(&t).unwrap();
        pos = 0;
        while pos < n && all[pos] < t {
            pos += 1;
        }
    }
    let mut step = 0;
    while step < 2 {
        assert!(it.is_valid() == (pos < n));
        if pos < n {
            assert!(*it.current().unwrap().0 == all[pos]);
        } else {
            break;
        }
        let fwd: bool = kani::any();
        if fwd {
            it.next();
            pos += 1;
        } else {
            it.prev();
            pos = if pos == 0 { n } else { pos - 1 };
        }
        step += 1;
    }
    assert!(it.is_valid() == (pos < n));
    if pos < n {
        assert!(*it.current().unwrap().0 == all[pos]);
    }
}
