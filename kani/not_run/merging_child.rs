// Test child iterator used by the MergingIterator harnesses.
use super::super::*;
use crate::key::InternalKey;

pub struct VecIter {
    pub entries: Vec<(InternalKey, Vec<u8>)>,
    /// entries.len() = invalid
    pub idx: usize,
}
impl RainDbIterator for VecIter {
    type Key = InternalKey;
    type Error = RainDBError;
    fn is_valid(&self) -> bool {
        self.idx < self.entries.len()
    }
    fn seek(&mut self, target: &InternalKey) -> Result<(), RainDBError> {
        let mut i = 0;
        while i < self.entries.len() && self.entries[i].0 < *target {
            i += 1;
        }
        self.idx = i;
        Ok(())
    }
    fn seek_to_first(&mut self) -> Result<(), RainDBError> {
        self.idx = 0;
        Ok(())
    }
    fn seek_to_last(&mut self) -> Result<(), RainDBError> {
        self.idx = if self.entries.is_empty() { 0 } else { self.entries.len() - 1 };
        Ok(())
    }
    fn next(&mut self) -> Option<(&InternalKey, &Vec<u8>)> {
        if self.idx < self.entries.len() {
            self.idx += 1;
        }
        self.current()
    }
    fn prev(&mut self) -> Option<(&InternalKey, &Vec<u8>)> {
        if self.idx == 0 || self.idx >= self.entries.len() {
            self.idx = self.entries.len();
        } else {
            self.idx -= 1;
        }
        self.current()
    }
    fn current(&self) -> Option<(&InternalKey, &Vec<u8>)> {
        if self.idx < self.entries.len() {
            Some((&self.entries[self.idx].0, &self.entries[self.idx].1))
        } else {
            None
        }
    }
}

