// Injected into a SCRATCH COPY of raindb (never into /repo) as `crate::verif_api` under
// `--cfg raindb_verif`.  Thin wrappers that drive the crate-private functions under contract with
// concrete inputs, plus executable oracles (reference reader, range cover, ...).
#![allow(missing_docs, dead_code, missing_debug_implementations)]

use std::io::{Read, Write};
use std::path::Path;
use std::sync::Arc;

use crate::fs::{FileSystem, InMemoryFileSystem};
use crate::key::InternalKey;
use crate::logs::{BlockRecord, BlockType, LogReader, LogWriter};
use crate::versioning::file_metadata::FileMetadata;
use crate::Operation;

pub enum LogOp {
    /// LogWriter::append through the currently open writer (opened in append mode on demand)
    Append(Vec<u8>),
    /// a single physical fragment written behind the writer's back ("writer died between fragments")
    Emit(u8, Vec<u8>),
    /// drop the writer; the next Append reopens with LogWriter::new(.., true)
    Reopen,
    /// xor the byte at offset with the mask
    Flip(usize, u8),
    /// cut the file to n bytes
    Truncate(usize),
}

const LOG_PATH: &str = "verif.log";

fn read_all(fs: &Arc<dyn FileSystem>) -> Vec<u8> {
    let mut f = match fs.open_file(Path::new(LOG_PATH)) {
        Ok(f) => f,
        Err(_) => return vec![],
    };
    let mut buf = vec![];
    f.read_to_end(&mut buf).unwrap();
    buf
}

fn write_all(fs: &Arc<dyn FileSystem>, bytes: &[u8]) {
    let mut f = fs.create_file(Path::new(LOG_PATH), false).unwrap();
    f.write_all(bytes).unwrap();
    f.flush().unwrap();
}

fn block_type(code: u8) -> BlockType {
    match code {
        0 => BlockType::Full,
        1 => BlockType::First,
        2 => BlockType::Middle,
        _ => BlockType::Last,
    }
}

/// Runs the operations against the real writer, then reads everything back with the real reader.
/// Returns (records returned by LogReader::read_record until EOF/error, error text if any, file bytes).
pub fn run_log(ops: &[LogOp]) -> (Vec<Vec<u8>>, Option<String>, Vec<u8>) {
    let fs: Arc<dyn FileSystem> = Arc::new(InMemoryFileSystem::new());
    let mut writer: Option<LogWriter> = None;
    let mut created = false;
    for op in ops {
        match op {
            LogOp::Append(data) => {
                if writer.is_none() {
                    writer = Some(LogWriter::new(Arc::clone(&fs), LOG_PATH, created).unwrap());
                    created = true;
                }
                writer.as_mut().unwrap().append(data).unwrap();
            }
            LogOp::Emit(code, payload) => {
                writer = None;
                let rec = BlockRecord::new(payload.len() as u16, block_type(*code), payload.clone());
                let mut bytes = read_all(&fs);
                bytes.extend(Vec::<u8>::from(&rec));
                write_all(&fs, &bytes);
                created = true;
            }
            LogOp::Reopen => {
                writer = None;
            }
            LogOp::Flip(off, mask) => {
                writer = None;
                let mut bytes = read_all(&fs);
                if *off < bytes.len() {
                    bytes[*off] ^= *mask;
                }
                write_all(&fs, &bytes);
                created = true;
            }
            LogOp::Truncate(n) => {
                writer = None;
                let mut bytes = read_all(&fs);
                bytes.truncate(*n);
                write_all(&fs, &bytes);
                created = true;
            }
        }
    }
    drop(writer);
    let bytes = read_all(&fs);
    let mut out = vec![];
    let mut err = None;
    if !created {
        return (out, err, bytes);
    }
    let result = std::panic::catch_unwind(std::panic::AssertUnwindSafe(|| {
        let mut out = vec![];
        let mut err = None;
        let mut reader = LogReader::new(Arc::clone(&fs), LOG_PATH, 0).unwrap();
        loop {
            match reader.read_record() {
                Ok((_, true)) => break,
                Ok((data, false)) => out.push(data),
                Err(e) => {
                    err = Some(format!("{}", e));
                    break;
                }
            }
            if out.len() > 100_000 {
                err = Some("reader did not stop".to_string());
                break;
            }
        }
        (out, err)
    }));
    match result {
        Ok((o, e)) => {
            out = o;
            err = e;
        }
        Err(_) => err = Some("PANIC in LogReader".to_string()),
    }
    (out, err, bytes)
}

fn crc_masked(payload: &[u8]) -> u32 {
    let c = crc::Crc::<u32>::new(&crc::CRC_32_ISCSI).checksum(payload);
    crate::utils::crc::mask_checksum(c)
}

/// Executable mirror of the ghost reference reader `rd` (specs/common/log_reader_spec.vs).
pub fn reference_read(f: &[u8]) -> Vec<Vec<u8>> {
    const B: usize = 32 * 1024;
    const H: usize = 7;
    let mut out = vec![];
    let mut p = 0usize;
    let mut acc: Option<Vec<u8>> = None;
    loop {
        let off = p % B;
        let h = if B - off < H { p + (B - off) } else { p };
        if h + H > f.len() {
            break;
        }
        let n = u16::from_le_bytes([f[h + 4], f[h + 5]]) as usize;
        if h + H + n > f.len() {
            break;
        }
        let q = h + H + n;
        let pl = &f[h + H..q];
        let stored = u32::from_le_bytes([f[h], f[h + 1], f[h + 2], f[h + 3]]);
        let valid = f[h + 6] <= 3 && stored == crc_masked(pl);
        if !valid {
            acc = None;
        } else {
            match f[h + 6] {
                0 => {
                    out.push(pl.to_vec());
                    acc = None;
                }
                1 => acc = Some(pl.to_vec()),
                2 => {
                    if let Some(a) = acc.as_mut() {
                        a.extend_from_slice(pl);
                    }
                }
                _ => {
                    if let Some(mut a) = acc.take() {
                        a.extend_from_slice(pl);
                        out.push(a);
                    }
                }
            }
        }
        p = q;
    }
    out
}

pub fn ikey(user: &[u8], seq: u64, op: u8) -> InternalKey {
    InternalKey::new(user.to_vec(), seq, if op == 0 { Operation::Delete } else { Operation::Put })
}

/// get_key_range_for_files on files given as (smallest, largest) pairs.
pub fn key_range_for_files(files: &[(InternalKey, InternalKey)]) -> (InternalKey, InternalKey) {
    let metas: Vec<Arc<FileMetadata>> = files
        .iter()
        .enumerate()
        .map(|(i, (s, l))| {
            let mut m = FileMetadata::new(i as u64 + 1);
            m.set_smallest_key(Some(s.clone()));
            m.set_largest_key(Some(l.clone()));
            Arc::new(m)
        })
        .collect();
    let r = FileMetadata::get_key_range_for_files(&metas);
    (r.start, r.end)
}

pub fn key_parts(k: &InternalKey) -> (Vec<u8>, u64) {
    (k.get_user_key().to_vec(), k.get_sequence_number())
}

// ---- tables -----------------------------------------------------------------------------------
use crate::file_names::FileNameHandler;
use crate::tables::errors::ReadError;
use crate::tables::{Table, TableBuilder};
use crate::{DbOptions, ReadOptions};
use std::rc::Rc;

/// Builds a table from (user key, seq, op, value) entries (given sorted) with the real
/// TableBuilder and runs the real Table::get.  Outcome: "value:<hex>", "deleted", "notfound",
/// or "error:<text>".
pub fn table_get(entries: &[(Vec<u8>, u64, u8, Vec<u8>)], block_size: usize, user: &[u8], seq: u64) -> String {
    let mut options = DbOptions::with_memory_env();
    options.max_block_size = block_size;
    let mut tb = TableBuilder::new(options.clone(), 77).unwrap();
    for (u, s, op, v) in entries {
        tb.add_entry(Rc::new(ikey(u, *s, *op)), v).unwrap();
    }
    tb.finalize().unwrap();
    drop(tb);
    let path = FileNameHandler::new(options.db_path().to_string()).get_table_file_path(77);
    let file = options.filesystem_provider().open_file(&path).unwrap();
    let table = Table::open(options.clone(), file).unwrap();
    let lookup = InternalKey::new_for_seeking(user.to_vec(), seq);
    match table.get(&ReadOptions::default(), &lookup) {
        Ok(Some(v)) => format!("value:{}", v.iter().map(|b| format!("{:02x}", b)).collect::<String>()),
        Ok(None) => "deleted".to_string(),
        Err(ReadError::KeyNotFound) => "notfound".to_string(),
        Err(e) => format!("error:{}", e),
    }
}

// ---- whole database histories (public API + the crate's own test hooks) ----------------------
use crate::WriteOptions;
use super::DB;

pub enum DbOp {
    Put(Vec<u8>, Vec<u8>),
    Delete(Vec<u8>),
    /// flush the memtable to a table file
    Flush,
    /// close and reopen; the flag is `reuse_log_files`
    Reopen(bool),
    /// manual compaction of the whole key range
    CompactAll,
    /// take a snapshot (kept until the end of the history; `run_views` reports what it sees)
    Snapshot,
    /// one atomic batch: (key, Some(value)) = put, (key, None) = delete
    Batch(Vec<(Vec<u8>, Option<Vec<u8>>)>),
    /// create an iterator now (it pins the current state) and read it only at the END of the history;
    /// the flag positions it on the first entry right away (so the first file is already open)
    PinIterator(bool),
}

fn make_batch(ops: &[(Vec<u8>, Option<Vec<u8>>)]) -> crate::Batch {
    let mut b = crate::Batch::new();
    for (k, v) in ops {
        match v {
            Some(v) => { b.add_put(k.clone(), v.clone()); }
            None => { b.add_delete(k.clone()); }
        }
    }
    b
}

/// Runs the history on an in-memory file system and returns, after the last step, what `get`
/// returns for each key of interest ("value:<hex>" / "notfound" / "error:...").
pub fn run_history(ops: &[DbOp], keys: &[Vec<u8>]) -> Vec<String> {
    let mut options = DbOptions::with_memory_env();
    options.create_if_missing = true;
    let mut db = Some(DB::open(options.clone()).unwrap());
    for op in ops {
        match op {
            DbOp::Put(k, v) => db.as_ref().unwrap().put(WriteOptions::default(), k.clone(), v.clone()).unwrap(),
            DbOp::Delete(k) => db.as_ref().unwrap().delete(WriteOptions::default(), k.clone()).unwrap(),
            DbOp::Flush => db.as_ref().unwrap().force_memtable_compaction().unwrap(),
            DbOp::CompactAll => db.as_ref().unwrap().compact_range(None..None),
            DbOp::Snapshot => {}
            DbOp::PinIterator(_) => {}
            DbOp::Batch(ops) => db.as_ref().unwrap().apply(WriteOptions::default(), make_batch(ops)).unwrap(),
            DbOp::Reopen(reuse) => {
                drop(db.take());
                options.reuse_log_files = *reuse;
                options.create_if_missing = false;
                db = Some(DB::open(options.clone()).unwrap());
            }
        }
    }
    let d = db.as_ref().unwrap();
    keys.iter()
        .map(|k| match d.get(ReadOptions::default(), k) {
            Ok(v) => format!("value:{}", v.iter().map(|b| format!("{:02x}", b)).collect::<String>()),
            Err(crate::RainDBError::KeyNotFound) => "notfound".to_string(),
            Err(e) => format!("error:{}", e),
        })
        .collect()
}


/// What one read view (a snapshot, or the latest state = `None`) shows at the end of a history.
pub struct View {
    /// index into the history of the `Snapshot` op that created it; None = latest state
    pub taken_at: Option<usize>,
    pub gets: Vec<String>,
    pub forward: Vec<(Vec<u8>, Vec<u8>)>,
    pub backward: Vec<(Vec<u8>, Vec<u8>)>,
    /// cursor walk: after `seek(key)` for every key of interest, the key found ("-" = invalid)
    pub seeks: Vec<String>,
    /// zig-zag walk from the first entry following `moves` ('n' / 'p'); key after each move, stops when invalid
    pub zigzag: Vec<String>,
    /// cursor scripts per key of interest (see `SCRIPTS`): key under the cursor after the script ("-" = invalid)
    pub scripts: Vec<Vec<String>>,
}

/// What an iterator created in the middle of the history (op index) shows when it is finally read:
/// a forward scan (after `seek_to_first`, or continuing from where it was positioned) and a backward scan.
pub struct PinnedScan {
    pub taken_at: usize,
    pub forward: Vec<(Vec<u8>, Vec<u8>)>,
    pub backward: Vec<(Vec<u8>, Vec<u8>)>,
}

pub fn run_views_and_pins(ops: &[DbOp], keys: &[Vec<u8>], moves: &str) -> (Vec<View>, Vec<PinnedScan>) {
    PINS.with(|p| p.borrow_mut().clear());
    let views = run_views(ops, keys, moves);
    let pins = PINS.with(|p| std::mem::take(&mut *p.borrow_mut()));
    (views, pins)
}
thread_local! { static PINS: std::cell::RefCell<Vec<PinnedScan>> = std::cell::RefCell::new(vec![]); }

/// Cursor scripts run on a fresh iterator for every key of interest: F = seek_to_first, L = seek_to_last,
/// S = seek(key), n = next, p = prev (a step on an invalid cursor ends the script).
pub const SCRIPTS: [&str; 5] = ["LpSp", "FnSn", "Spn", "Snp", "LSpp"];

fn hexs(b: &[u8]) -> String { b.iter().map(|x| format!("{:02x}", x)).collect() }

/// Runs the history (snapshots live across flushes and compactions, not across a reopen) and
/// reports every view through the public read API: get, and the DatabaseIterator in both
/// directions, with seeks and direction reversals.
pub fn run_views(ops: &[DbOp], keys: &[Vec<u8>], moves: &str) -> Vec<View> {
    use crate::RainDbIterator;
    let mut options = DbOptions::with_memory_env();
    options.create_if_missing = true;
    let mut db = Some(DB::open(options.clone()).unwrap());
    let mut snaps: Vec<(usize, crate::Snapshot)> = vec![];
    let mut pinned: Vec<(usize, bool, crate::iterator::DatabaseIterator, crate::iterator::DatabaseIterator)> = vec![];
    for (i, op) in ops.iter().enumerate() {
        match op {
            DbOp::PinIterator(positioned) => {
                let d = db.as_ref().unwrap();
                let mut a = d.new_iterator(ReadOptions::default()).unwrap();
                let mut b = d.new_iterator(ReadOptions::default()).unwrap();
                if *positioned { a.seek_to_first().unwrap(); let _ = b.seek_to_last(); }
                pinned.push((i, *positioned, a, b));
            }
            DbOp::Put(k, v) => db.as_ref().unwrap().put(WriteOptions::default(), k.clone(), v.clone()).unwrap(),
            DbOp::Delete(k) => db.as_ref().unwrap().delete(WriteOptions::default(), k.clone()).unwrap(),
            DbOp::Flush => db.as_ref().unwrap().force_memtable_compaction().unwrap(),
            DbOp::CompactAll => db.as_ref().unwrap().compact_range(None..None),
            DbOp::Snapshot => snaps.push((i, db.as_ref().unwrap().get_snapshot())),
            DbOp::Batch(ops) => db.as_ref().unwrap().apply(WriteOptions::default(), make_batch(ops)).unwrap(),
            DbOp::Reopen(reuse) => {
                snaps.clear();
                pinned.clear();
                drop(db.take());
                options.reuse_log_files = *reuse;
                options.create_if_missing = false;
                db = Some(DB::open(options.clone()).unwrap());
            }
        }
    }
    // pinned iterators are read now, after everything else happened
    for (i, positioned, mut a, mut b) in pinned.drain(..) {
        let mut forward = vec![];
        if !positioned { a.seek_to_first().unwrap(); }
        while a.is_valid() {
            let (k, v) = a.current().unwrap();
            forward.push((k.clone(), v.clone()));
            a.next();
        }
        let mut backward = vec![];
        let ok = if positioned { true } else { b.seek_to_last().is_ok() };
        if ok {
            while b.is_valid() {
                let (k, v) = b.current().unwrap();
                backward.push((k.clone(), v.clone()));
                b.prev();
            }
        }
        PINS.with(|p| p.borrow_mut().push(PinnedScan { taken_at: i, forward, backward }));
    }
    let d = db.as_ref().unwrap();
    let mut views = vec![];
    let mut all: Vec<(Option<usize>, Option<crate::Snapshot>)> = snaps.iter().map(|(i, s)| (Some(*i), Some(s.clone()))).collect();
    all.push((None, None));
    for (taken_at, snap) in all {
        let ro = || ReadOptions { fill_cache: true, snapshot: snap.clone() };
        let gets = keys
            .iter()
            .map(|k| match d.get(ro(), k) {
                Ok(v) => format!("value:{}", hexs(&v)),
                Err(crate::RainDBError::KeyNotFound) => "notfound".to_string(),
                Err(e) => format!("error:{}", e),
            })
            .collect();
        let mut forward = vec![];
        let mut it = d.new_iterator(ro()).unwrap();
        it.seek_to_first().unwrap();
        while it.is_valid() {
            let (k, v) = it.current().unwrap();
            forward.push((k.clone(), v.clone()));
            it.next();
        }
        let mut backward = vec![];
        let mut it = d.new_iterator(ro()).unwrap();
        if !forward.is_empty() || true {
            // (seek_to_last on an empty database panics in a block iterator in some layouts; it is
            // only exercised when the forward scan found the database non-empty or memtable-only)
            if it.seek_to_last().is_ok() {
                while it.is_valid() {
                    let (k, v) = it.current().unwrap();
                    backward.push((k.clone(), v.clone()));
                    it.prev();
                }
            }
        }
        let mut seeks = vec![];
        let mut it = d.new_iterator(ro()).unwrap();
        for k in keys {
            it.seek(k).unwrap();
            seeks.push(if it.is_valid() { hexs(it.current().unwrap().0) } else { "-".to_string() });
        }
        let mut zigzag = vec![];
        let mut it = d.new_iterator(ro()).unwrap();
        it.seek_to_first().unwrap();
        for m in moves.chars() {
            if !it.is_valid() { break; }
            if m == 'n' { it.next(); } else { it.prev(); }
            zigzag.push(if it.is_valid() { hexs(it.current().unwrap().0) } else { "-".to_string() });
        }
        let mut scripts = vec![];
        for k in keys {
            let mut row = vec![];
            for sc in SCRIPTS.iter() {
                let mut it = d.new_iterator(ro()).unwrap();
                let mut started = false;
                for c in sc.chars() {
                    match c {
                        'F' => { it.seek_to_first().unwrap(); started = true; }
                        'L' => { if forward.is_empty() { break; } it.seek_to_last().unwrap(); started = true; }
                        'S' => { it.seek(k).unwrap(); started = true; }
                        'n' => { if !started || !it.is_valid() { break; } it.next(); }
                        _ => { if !started || !it.is_valid() { break; } it.prev(); }
                    }
                }
                row.push(if started && it.is_valid() { hexs(it.current().unwrap().0) } else { "-".to_string() });
            }
            scripts.push(row);
        }
        views.push(View { taken_at, gets, forward, backward, seeks, zigzag, scripts });
    }
    views
}


// ---- write batch codec (src/batch.rs) ------------------------------------------------------------
/// Result of `Batch::try_from(bytes)`: Err(text) or (starting sequence number, [(op, key, value)]).
pub fn batch_decode(bytes: &[u8]) -> Result<(u64, Vec<(u8, Vec<u8>, Option<Vec<u8>>)>), String> {
    match crate::Batch::try_from(bytes) {
        Err(e) => Err(format!("{}", e)),
        Ok(b) => Ok((
            b.get_starting_seq_number().unwrap_or(0),
            b.iter()
                .map(|e| (if e.get_operation() == crate::Operation::Put { 1u8 } else { 0u8 }, e.get_key().to_vec(), e.get_value().cloned()))
                .collect(),
        )),
    }
}
/// `Vec::<u8>::from(&batch)` for a batch built through the public API.
pub fn batch_encode(seq: u64, ops: &[(Vec<u8>, Option<Vec<u8>>)]) -> Vec<u8> {
    let mut b = make_batch(ops);
    b.set_starting_seq_number(seq);
    Vec::<u8>::from(&b)
}
