// Injected into a SCRATCH COPY of raindb (never into /repo) as `crate::verif_api` under
// `--cfg raindb_verif`.  Thin wrappers that drive the crate-private functions under contract with
// concrete inputs, plus executable oracles (reference reader, range cover, ...).
#![allow(missing_docs, dead_code, missing_debug_implementations)]

use std::io::{Read, Write};
use std::path::Path;
use std::sync::Arc;

use crate::fs::{FileSystem, InMemoryFileSystem};
use crate::key::InternalKey;
use crate::logs::{BlockRecord, BlockType, LogReader, LogWriter};
use crate::versioning::file_metadata::FileMetadata;
use crate::Operation;

pub enum LogOp {
    /// LogWriter::append through the currently open writer (opened in append mode on demand)
    Append(Vec<u8>),
    /// a single physical fragment written behind the writer's back ("writer died between fragments")
    Emit(u8, Vec<u8>),
    /// drop the writer; the next Append reopens with LogWriter::new(.., true)
    Reopen,
    /// xor the byte at offset with the mask
    Flip(usize, u8),
    /// cut the file to n bytes
    Truncate(usize),
    /// drop the writer, open a reader, read n records and drop the reader WITHOUT draining it (what
    /// recovery of a log does when it stops early); the next Append reopens in append mode
    Peek(usize),
}

const LOG_PATH: &str = "verif.log";

fn read_all(fs: &Arc<dyn FileSystem>) -> Vec<u8> {
    let mut f = match fs.open_file(Path::new(LOG_PATH)) {
        Ok(f) => f,
        Err(_) => return vec![],
    };
    let mut buf = vec![];
    f.read_to_end(&mut buf).unwrap();
    buf
}

fn write_all(fs: &Arc<dyn FileSystem>, bytes: &[u8]) {
    let mut f = fs.create_file(Path::new(LOG_PATH), false).unwrap();
    f.write_all(bytes).unwrap();
    f.flush().unwrap();
}

fn block_type(code: u8) -> BlockType {
    match code {
        0 => BlockType::Full,
        1 => BlockType::First,
        2 => BlockType::Middle,
        _ => BlockType::Last,
    }
}

/// Runs the operations against the real writer, then reads everything back with the real reader.
/// Returns (records returned by LogReader::read_record until EOF/error, error text if any, file bytes).
pub fn run_log(ops: &[LogOp]) -> (Vec<Vec<u8>>, Option<String>, Vec<u8>) {
    let fs: Arc<dyn FileSystem> = Arc::new(InMemoryFileSystem::new());
    let mut writer: Option<LogWriter> = None;
    let mut created = false;
    for op in ops {
        match op {
            LogOp::Append(data) => {
                if writer.is_none() {
                    writer = Some(LogWriter::new(Arc::clone(&fs), LOG_PATH, created).unwrap());
                    created = true;
                }
                writer.as_mut().unwrap().append(data).unwrap();
            }
            LogOp::Emit(code, payload) => {
                writer = None;
                let rec = BlockRecord::new(payload.len() as u16, block_type(*code), payload.clone());
                let mut bytes = read_all(&fs);
                bytes.extend(Vec::<u8>::from(&rec));
                write_all(&fs, &bytes);
                created = true;
            }
            LogOp::Reopen => {
                writer = None;
            }
            LogOp::Flip(off, mask) => {
                writer = None;
                let mut bytes = read_all(&fs);
                if *off < bytes.len() {
                    bytes[*off] ^= *mask;
                }
                write_all(&fs, &bytes);
                created = true;
            }
            LogOp::Truncate(n) => {
                writer = None;
                let mut bytes = read_all(&fs);
                bytes.truncate(*n);
                write_all(&fs, &bytes);
                created = true;
            }
            LogOp::Peek(n) => {
                writer = None;
                if created {
                    if let Ok(mut reader) = LogReader::new(Arc::clone(&fs), LOG_PATH, 0) {
                        for _ in 0..*n { if reader.read_record().is_err() { break; } }
                    }
                }
            }
        }
    }
    drop(writer);
    let bytes = read_all(&fs);
    let mut out = vec![];
    let mut err = None;
    if !created {
        return (out, err, bytes);
    }
    let result = std::panic::catch_unwind(std::panic::AssertUnwindSafe(|| {
        let mut out = vec![];
        let mut err = None;
        let mut reader = LogReader::new(Arc::clone(&fs), LOG_PATH, 0).unwrap();
        loop {
            match reader.read_record() {
                Ok((_, true)) => break,
                Ok((data, false)) => out.push(data),
                Err(e) => {
                    err = Some(format!("{}", e));
                    break;
                }
            }
            if out.len() > 100_000 {
                err = Some("reader did not stop".to_string());
                break;
            }
        }
        (out, err)
    }));
    match result {
        Ok((o, e)) => {
            out = o;
            err = e;
        }
        Err(_) => err = Some("PANIC in LogReader".to_string()),
    }
    (out, err, bytes)
}

fn crc_masked(payload: &[u8]) -> u32 {
    let c = crc::Crc::<u32>::new(&crc::CRC_32_ISCSI).checksum(payload);
    crate::utils::crc::mask_checksum(c)
}

/// Executable mirror of the ghost reference reader `rd` (specs/common/log_reader_spec.vs).
pub fn reference_read(f: &[u8]) -> Vec<Vec<u8>> {
    const B: usize = 32 * 1024;
    const H: usize = 7;
    let mut out = vec![];
    let mut p = 0usize;
    let mut acc: Option<Vec<u8>> = None;
    loop {
        let off = p % B;
        let h = if B - off < H { p + (B - off) } else { p };
        if h + H > f.len() {
            break;
        }
        let n = u16::from_le_bytes([f[h + 4], f[h + 5]]) as usize;
        if h + H + n > f.len() {
            break;
        }
        let q = h + H + n;
        let pl = &f[h + H..q];
        let stored = u32::from_le_bytes([f[h], f[h + 1], f[h + 2], f[h + 3]]);
        let valid = f[h + 6] <= 3 && stored == crc_masked(pl);
        if !valid {
            acc = None;
        } else {
            match f[h + 6] {
                0 => {
                    out.push(pl.to_vec());
                    acc = None;
                }
                1 => acc = Some(pl.to_vec()),
                2 => {
                    if let Some(a) = acc.as_mut() {
                        a.extend_from_slice(pl);
                    }
                }
                _ => {
                    if let Some(mut a) = acc.take() {
                        a.extend_from_slice(pl);
                        out.push(a);
                    }
                }
            }
        }
        p = q;
    }
    out
}

pub fn ikey(user: &[u8], seq: u64, op: u8) -> InternalKey {
    InternalKey::new(user.to_vec(), seq, if op == 0 { Operation::Delete } else { Operation::Put })
}

/// get_key_range_for_files on files given as (smallest, largest) pairs.
pub fn key_range_for_files(files: &[(InternalKey, InternalKey)]) -> (InternalKey, InternalKey) {
    let metas: Vec<Arc<FileMetadata>> = files
        .iter()
        .enumerate()
        .map(|(i, (s, l))| {
            let mut m = FileMetadata::new(i as u64 + 1);
            m.set_smallest_key(Some(s.clone()));
            m.set_largest_key(Some(l.clone()));
            Arc::new(m)
        })
        .collect();
    let r = FileMetadata::get_key_range_for_files(&metas);
    (r.start, r.end)
}

pub fn key_parts(k: &InternalKey) -> (Vec<u8>, u64) {
    (k.get_user_key().to_vec(), k.get_sequence_number())
}

// ---- tables -----------------------------------------------------------------------------------
use crate::file_names::FileNameHandler;
use crate::tables::errors::ReadError;
use crate::tables::{Table, TableBuilder};
use crate::{DbOptions, ReadOptions};
use std::rc::Rc;

/// Builds a table from (user key, seq, op, value) entries (given sorted) with the real
/// TableBuilder and runs the real Table::get.  Outcome: "value:<hex>", "deleted", "notfound",
/// or "error:<text>".
pub fn table_get(entries: &[(Vec<u8>, u64, u8, Vec<u8>)], block_size: usize, user: &[u8], seq: u64) -> String {
    let mut options = DbOptions::with_memory_env();
    options.max_block_size = block_size;
    let mut tb = TableBuilder::new(options.clone(), 77).unwrap();
    for (u, s, op, v) in entries {
        tb.add_entry(Rc::new(ikey(u, *s, *op)), v).unwrap();
    }
    tb.finalize().unwrap();
    drop(tb);
    let path = FileNameHandler::new(options.db_path().to_string()).get_table_file_path(77);
    let file = options.filesystem_provider().open_file(&path).unwrap();
    let table = Table::open(options.clone(), file).unwrap();
    let lookup = InternalKey::new_for_seeking(user.to_vec(), seq);
    match table.get(&ReadOptions::default(), &lookup) {
        Ok(Some(v)) => format!("value:{}", v.iter().map(|b| format!("{:02x}", b)).collect::<String>()),
        Ok(None) => "deleted".to_string(),
        Err(ReadError::KeyNotFound) => "notfound".to_string(),
        Err(e) => format!("error:{}", e),
    }
}

// ---- whole database histories (public API + the crate's own test hooks) ----------------------
use crate::WriteOptions;
use super::DB;

#[derive(Clone)]
pub enum DbOp {
    Put(Vec<u8>, Vec<u8>),
    Delete(Vec<u8>),
    /// flush the memtable to a table file
    Flush,
    /// close and reopen; the flag is `reuse_log_files`
    Reopen(bool),
    /// manual compaction of the whole key range
    CompactAll,
    /// take a snapshot (kept until the end of the history; `run_views` reports what it sees)
    Snapshot,
    /// one atomic batch: (key, Some(value)) = put, (key, None) = delete
    Batch(Vec<(Vec<u8>, Option<Vec<u8>>)>),
    /// create an iterator now (it pins the current state) and read it only at the END of the history;
    /// the flag positions it on the first entry right away (so the first file is already open)
    PinIterator(bool),
    /// (faults / crash oracles only) close, drop crash leftovers into the directory - an orphan
    /// table file, a temp file, a superseded manifest - and reopen
    Plant,
    /// manual compaction of ONE level over a user-key range (the crate's own test hook
    /// `force_level_compaction`); None = open end
    CompactLevel(usize, Option<Vec<u8>>, Option<Vec<u8>>),
    /// release the oldest snapshot still held by the history
    ReleaseSnapshot,
    /// close and reopen with `max_file_size` set to the given value (options may change between
    /// reopens, C01); snapshots and pinned iterators end here
    ReopenSmallFiles(u64),
    /// (C15) close, XOR the byte `back` bytes before the end of the current manifest with `mask`,
    /// reopen.  If `open` refuses the damaged file the run ends there (that is the answer C15 asks
    /// for); if it opens, the history goes on and is judged like any other.
    DamageManifest(usize, u8),
    /// (C15, oracle scan_damage only) close, XOR the byte at len * num / den of the newest table
    /// file with `mask`, reopen
    DamageTable(usize, usize, u8),
    /// (C15, oracle manifest_type only) close, change the TYPE code of the k-th fragment from the end
    /// of the current manifest from Full to First (the fragment's checksum and payload stay as
    /// they are), reopen
    ManifestFragmentType(usize),
    /// n point lookups of one key (seek charging: the first file consulted is charged when two are)
    GetMany(Vec<u8>, usize),
    /// let background work finish
    Sleep(u64),
    /// (C11, second sentence) release every snapshot and pinned iterator, then compare the table
    /// files on disk with the current version, sampled for up to 3 s
    DirCheck,
}

fn make_batch(ops: &[(Vec<u8>, Option<Vec<u8>>)]) -> crate::Batch {
    let mut b = crate::Batch::new();
    for (k, v) in ops {
        match v {
            Some(v) => { b.add_put(k.clone(), v.clone()); }
            None => { b.add_delete(k.clone()); }
        }
    }
    b
}

/// Runs the history on an in-memory file system and returns, after the last step, what `get`
/// returns for each key of interest ("value:<hex>" / "notfound" / "error:...").
pub fn run_history(ops: &[DbOp], keys: &[Vec<u8>]) -> Vec<String> {
    let mut options = DbOptions::with_memory_env();
    options.create_if_missing = true;
    let mut db = Some(DB::open(options.clone()).unwrap());
    for op in ops {
        match op {
            DbOp::Put(k, v) => db.as_ref().unwrap().put(WriteOptions::default(), k.clone(), v.clone()).unwrap(),
            DbOp::Delete(k) => db.as_ref().unwrap().delete(WriteOptions::default(), k.clone()).unwrap(),
            DbOp::Flush => db.as_ref().unwrap().force_memtable_compaction().unwrap(),
            DbOp::CompactAll => db.as_ref().unwrap().compact_range(None..None),
            DbOp::Snapshot => {}
            DbOp::Plant => {}
            DbOp::ReleaseSnapshot => {}
            DbOp::DamageManifest(_, _) => {}
            DbOp::DamageTable(_, _, _) => {}
            DbOp::ManifestFragmentType(_) => {}
            DbOp::GetMany(k, n) => { for _ in 0..*n { let _ = db.as_ref().unwrap().get(ReadOptions::default(), k); } }
            DbOp::Sleep(ms) => std::thread::sleep(std::time::Duration::from_millis(*ms)),
            DbOp::DirCheck => {}
            DbOp::CompactLevel(level, lo, hi) => db.as_ref().unwrap().force_level_compaction(*level, &(lo.as_deref()..hi.as_deref())),
            DbOp::ReopenSmallFiles(n) => {
                drop(db.take());
                options.max_file_size = *n;
                db = Some(DB::open(options.clone()).unwrap());
            }
            DbOp::PinIterator(_) => {}
            DbOp::Batch(ops) => db.as_ref().unwrap().apply(WriteOptions::default(), make_batch(ops)).unwrap(),
            DbOp::Reopen(reuse) => {
                drop(db.take());
                options.reuse_log_files = *reuse;
                options.create_if_missing = false;
                db = Some(DB::open(options.clone()).unwrap());
            }
        }
    }
    let d = db.as_ref().unwrap();
    keys.iter()
        .map(|k| match d.get(ReadOptions::default(), k) {
            Ok(v) => format!("value:{}", v.iter().map(|b| format!("{:02x}", b)).collect::<String>()),
            Err(crate::RainDBError::KeyNotFound) => "notfound".to_string(),
            Err(e) => format!("error:{}", e),
        })
        .collect()
}


/// What one read view (a snapshot, or the latest state = `None`) shows at the end of a history.
pub struct View {
    /// index into the history of the `Snapshot` op that created it; None = latest state
    pub taken_at: Option<usize>,
    pub gets: Vec<String>,
    pub forward: Vec<(Vec<u8>, Vec<u8>)>,
    pub backward: Vec<(Vec<u8>, Vec<u8>)>,
    /// cursor walk: after `seek(key)` for every key of interest, the key found ("-" = invalid)
    pub seeks: Vec<String>,
    /// zig-zag walk from the first entry following `moves` ('n' / 'p'); key after each move, stops when invalid
    pub zigzag: Vec<String>,
    /// cursor scripts per key of interest (see `SCRIPTS`): key under the cursor after the script ("-" = invalid)
    pub scripts: Vec<Vec<String>>,
}

/// What an iterator created in the middle of the history (op index) shows when it is finally read:
/// a forward scan (after `seek_to_first`, or continuing from where it was positioned) and a backward scan.
pub struct PinnedScan {
    pub taken_at: usize,
    pub forward: Vec<(Vec<u8>, Vec<u8>)>,
    pub backward: Vec<(Vec<u8>, Vec<u8>)>,
}

pub fn run_views_and_pins(ops: &[DbOp], keys: &[Vec<u8>], moves: &str) -> (Vec<View>, Vec<PinnedScan>) {
    PINS.with(|p| p.borrow_mut().clear());
    OPEN_REFUSED.with(|r| *r.borrow_mut() = None);
    DIRCHECK.with(|r| r.borrow_mut().clear());
    let views = run_views(ops, keys, moves);
    let pins = PINS.with(|p| std::mem::take(&mut *p.borrow_mut()));
    (views, pins)
}
thread_local! { static PINS: std::cell::RefCell<Vec<PinnedScan>> = std::cell::RefCell::new(vec![]); }
thread_local! { pub static DIRCHECK: std::cell::RefCell<Vec<String>> = std::cell::RefCell::new(vec![]); }
/// what the DirCheck steps of the last `run_views` found
pub fn dircheck_findings() -> Vec<String> { DIRCHECK.with(|r| r.borrow().clone()) }
thread_local! { pub static OPEN_REFUSED: std::cell::RefCell<Option<String>> = std::cell::RefCell::new(None); }
/// Some(error text) if the last `run_views` ended because `open` refused a damaged file
pub fn open_refused() -> Option<String> { OPEN_REFUSED.with(|r| r.borrow().clone()) }

/// Cursor scripts run on a fresh iterator for every key of interest: F = seek_to_first, L = seek_to_last,
/// S = seek(key), n = next, p = prev (a step on an invalid cursor ends the script).
pub const SCRIPTS: [&str; 5] = ["LpSp", "FnSn", "Spn", "Snp", "LSpp"];

fn hexs(b: &[u8]) -> String { b.iter().map(|x| format!("{:02x}", x)).collect() }

/// Runs the history (snapshots live across flushes and compactions, not across a reopen) and
/// reports every view through the public read API: get, and the DatabaseIterator in both
/// directions, with seeks and direction reversals.
/// Reads every pinned iterator to its end in both directions (C03: an iterator observes the state at
/// its creation whatever happened since) and records what it showed.
fn read_pins(pinned: &mut Vec<(usize, bool, crate::iterator::DatabaseIterator, crate::iterator::DatabaseIterator)>) {
    use crate::RainDbIterator;
    for (i, positioned, mut a, mut b) in pinned.drain(..) {
        let mut forward = vec![];
        if !positioned { a.seek_to_first().unwrap(); }
        while a.is_valid() {
            let (k, v) = a.current().unwrap();
            forward.push((k.clone(), v.clone()));
            a.next();
        }
        let mut backward = vec![];
        let ok = if positioned { true } else { b.seek_to_last().is_ok() };
        if ok {
            while b.is_valid() {
                let (k, v) = b.current().unwrap();
                backward.push((k.clone(), v.clone()));
                b.prev();
            }
        }
        PINS.with(|p| p.borrow_mut().push(PinnedScan { taken_at: i, forward, backward }));
    }
}

pub fn run_views(ops: &[DbOp], keys: &[Vec<u8>], moves: &str) -> Vec<View> {
    use crate::RainDbIterator;
    let mut options = DbOptions::with_memory_env();
    options.create_if_missing = true;
    let mut db = Some(DB::open(options.clone()).unwrap());
    let mut snaps: Vec<(usize, crate::Snapshot)> = vec![];
    let mut pinned: Vec<(usize, bool, crate::iterator::DatabaseIterator, crate::iterator::DatabaseIterator)> = vec![];
    for (i, op) in ops.iter().enumerate() {
        match op {
            DbOp::PinIterator(positioned) => {
                let d = db.as_ref().unwrap();
                let mut a = d.new_iterator(ReadOptions::default()).unwrap();
                let mut b = d.new_iterator(ReadOptions::default()).unwrap();
                if *positioned { a.seek_to_first().unwrap(); let _ = b.seek_to_last(); }
                pinned.push((i, *positioned, a, b));
            }
            DbOp::Put(k, v) => db.as_ref().unwrap().put(WriteOptions::default(), k.clone(), v.clone()).unwrap(),
            DbOp::Delete(k) => db.as_ref().unwrap().delete(WriteOptions::default(), k.clone()).unwrap(),
            DbOp::Flush => db.as_ref().unwrap().force_memtable_compaction().unwrap(),
            DbOp::CompactAll => db.as_ref().unwrap().compact_range(None..None),
            DbOp::Snapshot => snaps.push((i, db.as_ref().unwrap().get_snapshot())),
            DbOp::Plant => {}
            DbOp::ReleaseSnapshot => { if !snaps.is_empty() { let (_, s0) = snaps.remove(0); db.as_ref().unwrap().release_snapshot(s0); } }
            DbOp::CompactLevel(level, lo, hi) => db.as_ref().unwrap().force_level_compaction(*level, &(lo.as_deref()..hi.as_deref())),
            DbOp::ReopenSmallFiles(n) => {
                snaps.clear();
                pinned.clear();
                drop(db.take());
                options.max_file_size = *n;
                db = Some(DB::open(options.clone()).unwrap());
            }
            DbOp::DamageTable(_, _, _) => {}
            DbOp::ManifestFragmentType(_) => {}
            DbOp::GetMany(k, n) => { for _ in 0..*n { let _ = db.as_ref().unwrap().get(ReadOptions::default(), k); } }
            DbOp::Sleep(ms) => std::thread::sleep(std::time::Duration::from_millis(*ms)),
            DbOp::DirCheck => {
                // nothing may pin an older version any more
                // (the pinned iterators are READ before they are given up: a history used to end with this
                // step, which dropped them unread - found when seeded changes C03-m2 / C03-r5m2 went unreported)
                read_pins(&mut pinned);
                for (_, s0) in snaps.drain(..) { db.as_ref().unwrap().release_snapshot(s0); }
                pinned.clear();
                // files that only a released snapshot / iterator kept alive are reclaimed by the NEXT
                // garbage collection, which runs after a flush or a compaction (as in LevelDB): give
                // it that occasion before judging
                let _ = db.as_ref().unwrap().force_memtable_compaction();
                std::thread::sleep(std::time::Duration::from_millis(200));
                let fs = options.filesystem_provider();
                if let Some(msg) = faults::leftovers(db.as_ref().unwrap(), &fs, options.db_path()) {
                    DIRCHECK.with(|r| r.borrow_mut().push(format!("op{}: {}", i, msg)));
                }
            }
            DbOp::DamageManifest(back, mask) => {
                use std::io::{Read, Write};
                snaps.clear();
                pinned.clear();
                drop(db.take());
                let fs = options.filesystem_provider();
                let root = std::path::PathBuf::from(options.db_path());
                // the manifest CURRENT names is the newest one
                let mut manifests: Vec<std::path::PathBuf> = fs.list_dir(&root).unwrap_or_default().into_iter()
                    .filter(|p| p.file_name().map_or(false, |n| n.to_string_lossy().starts_with("MANIFEST"))).collect();
                manifests.sort();
                if let Some(m) = manifests.last() {
                    let mut bytes = vec![];
                    fs.open_file(m).unwrap().read_to_end(&mut bytes).unwrap();
                    if *back >= 1 && *back <= bytes.len() {
                        let n = bytes.len();
                        bytes[n - *back] ^= *mask;
                        let mut f = fs.create_file(m, false).unwrap();
                        f.write_all(&bytes).unwrap();
                    }
                }
                options.create_if_missing = false;
                match DB::open(options.clone()) {
                    Ok(d) => db = Some(d),
                    Err(e) => {
                        OPEN_REFUSED.with(|r| *r.borrow_mut() = Some(format!("{}", e)));
                        return vec![];
                    }
                }
            }
            DbOp::Batch(ops) => db.as_ref().unwrap().apply(WriteOptions::default(), make_batch(ops)).unwrap(),
            DbOp::Reopen(reuse) => {
                snaps.clear();
                pinned.clear();
                drop(db.take());
                options.reuse_log_files = *reuse;
                options.create_if_missing = false;
                db = Some(DB::open(options.clone()).unwrap());
            }
        }
    }
    // pinned iterators are read now, after everything else happened
    read_pins(&mut pinned);
    let d = db.as_ref().unwrap();
    let mut views = vec![];
    let mut all: Vec<(Option<usize>, Option<crate::Snapshot>)> = snaps.iter().map(|(i, s)| (Some(*i), Some(s.clone()))).collect();
    all.push((None, None));
    for (taken_at, snap) in all {
        let ro = || ReadOptions { fill_cache: true, snapshot: snap.clone() };
        let gets = keys
            .iter()
            .map(|k| match d.get(ro(), k) {
                Ok(v) => format!("value:{}", hexs(&v)),
                Err(crate::RainDBError::KeyNotFound) => "notfound".to_string(),
                Err(e) => format!("error:{}", e),
            })
            .collect();
        let mut forward = vec![];
        let mut it = d.new_iterator(ro()).unwrap();
        it.seek_to_first().unwrap();
        while it.is_valid() {
            let (k, v) = it.current().unwrap();
            forward.push((k.clone(), v.clone()));
            it.next();
        }
        let mut backward = vec![];
        let mut it = d.new_iterator(ro()).unwrap();
        if !forward.is_empty() || true {
            // (seek_to_last on an empty database panics in a block iterator in some layouts; it is
            // only exercised when the forward scan found the database non-empty or memtable-only)
            if it.seek_to_last().is_ok() {
                while it.is_valid() {
                    let (k, v) = it.current().unwrap();
                    backward.push((k.clone(), v.clone()));
                    it.prev();
                }
            }
        }
        let mut seeks = vec![];
        let mut it = d.new_iterator(ro()).unwrap();
        for k in keys {
            it.seek(k).unwrap();
            seeks.push(if it.is_valid() { hexs(it.current().unwrap().0) } else { "-".to_string() });
        }
        let mut zigzag = vec![];
        let mut it = d.new_iterator(ro()).unwrap();
        it.seek_to_first().unwrap();
        for m in moves.chars() {
            if !it.is_valid() { break; }
            if m == 'n' { it.next(); } else { it.prev(); }
            zigzag.push(if it.is_valid() { hexs(it.current().unwrap().0) } else { "-".to_string() });
        }
        let mut scripts = vec![];
        for k in keys {
            let mut row = vec![];
            for sc in SCRIPTS.iter() {
                let mut it = d.new_iterator(ro()).unwrap();
                let mut started = false;
                for c in sc.chars() {
                    match c {
                        'F' => { it.seek_to_first().unwrap(); started = true; }
                        'L' => { if forward.is_empty() { break; } it.seek_to_last().unwrap(); started = true; }
                        'S' => { it.seek(k).unwrap(); started = true; }
                        'n' => { if !started || !it.is_valid() { break; } it.next(); }
                        _ => { if !started || !it.is_valid() { break; } it.prev(); }
                    }
                }
                row.push(if started && it.is_valid() { hexs(it.current().unwrap().0) } else { "-".to_string() });
            }
            scripts.push(row);
        }
        views.push(View { taken_at, gets, forward, backward, seeks, zigzag, scripts });
    }
    views
}


// ---- write batch codec (src/batch.rs) ------------------------------------------------------------
/// Result of `Batch::try_from(bytes)`: Err(text) or (starting sequence number, [(op, key, value)]).
pub fn batch_decode(bytes: &[u8]) -> Result<(u64, Vec<(u8, Vec<u8>, Option<Vec<u8>>)>), String> {
    match crate::Batch::try_from(bytes) {
        Err(e) => Err(format!("{}", e)),
        Ok(b) => Ok((
            b.get_starting_seq_number().unwrap_or(0),
            b.iter()
                .map(|e| (if e.get_operation() == crate::Operation::Put { 1u8 } else { 0u8 }, e.get_key().to_vec(), e.get_value().cloned()))
                .collect(),
        )),
    }
}
/// `Vec::<u8>::from(&batch)` for a batch built through the public API.
pub fn batch_encode(seq: u64, ops: &[(Vec<u8>, Option<Vec<u8>>)]) -> Vec<u8> {
    let mut b = make_batch(ops);
    b.set_starting_seq_number(seq);
    Vec::<u8>::from(&b)
}

// ---- fault injection (C08, bounded stand-in) ---------------------------------------------------
// A FileSystem wrapper that fails the k-th counted call (create_file, open_file, rename,
// remove_file, get_file_size, write/append on a file) once ("transient") or from then on
// ("sticky").  Everything else is passed through to the crate's own in-memory file system.
pub mod faults {
    use super::*;
    use std::collections::BTreeMap;
    use std::io::{self, Seek, SeekFrom};
    use std::path::PathBuf;
    use std::sync::atomic::{AtomicBool, AtomicUsize, Ordering as AO};
    use std::sync::Mutex;
    use crate::fs::{FileLock, RandomAccessFile, ReadonlyRandomAccessFile};

    pub struct FaultCtl {
        pub count: AtomicUsize,
        pub fail_at: AtomicUsize,
        pub sticky: AtomicBool,
        /// the failing call, if it is a write/append, first writes a prefix of its buffer:
        /// 0 = nothing, 1 = one byte, 2 = half, 3 = all but one byte
        pub torn: AtomicUsize,
        pub fired: Mutex<Vec<String>>,
    }
    impl FaultCtl {
        fn hit(&self, what: &str, path: &Path) -> io::Result<()> {
            let n = self.count.fetch_add(1, AO::SeqCst);
            let at = self.fail_at.load(AO::SeqCst);
            if at != usize::MAX && (n == at || (self.sticky.load(AO::SeqCst) && n > at)) {
                let mut f = self.fired.lock().unwrap();
                if f.len() < 4 { f.push(format!("#{} {} {}", n, what, path.display())); }
                return Err(io::Error::new(io::ErrorKind::Other, "injected fault"));
            }
            Ok(())
        }
    }
    pub struct FaultFs { pub inner: Arc<dyn FileSystem>, pub ctl: Arc<FaultCtl> }
    struct FaultFile { inner: Box<dyn RandomAccessFile>, ctl: Arc<FaultCtl>, path: PathBuf }
    impl Read for FaultFile { fn read(&mut self, b: &mut [u8]) -> io::Result<usize> { self.inner.read(b) } }
    impl Seek for FaultFile { fn seek(&mut self, p: SeekFrom) -> io::Result<u64> { self.inner.seek(p) } }
    impl FaultFile {
        /// a torn write: the first half of the buffer reaches the file, then the call fails
        fn tear(&mut self, b: &[u8], append: bool) {
            let at = self.ctl.fail_at.load(AO::SeqCst);
            let t = self.ctl.torn.load(AO::SeqCst);
            if t != 0 && self.ctl.count.load(AO::SeqCst) == at + 1 && b.len() > 1 {
                let n = match t { 1 => 1, 2 => b.len() / 2, _ => b.len() - 1 };
                let _ = if append { self.inner.append(&b[..n]) } else { self.inner.write(&b[..n]) };
            }
        }
    }
    impl Write for FaultFile {
        fn write(&mut self, b: &[u8]) -> io::Result<usize> {
            if let Err(e) = self.ctl.hit("write", &self.path) { self.tear(b, false); return Err(e); }
            self.inner.write(b)
        }
        fn flush(&mut self) -> io::Result<()> { self.inner.flush() }
    }
    impl ReadonlyRandomAccessFile for FaultFile {
        fn read_from(&self, b: &mut [u8], o: usize) -> io::Result<usize> { self.inner.read_from(b, o) }
        fn len(&self) -> io::Result<u64> { self.inner.len() }
    }
    impl RandomAccessFile for FaultFile {
        fn append(&mut self, b: &[u8]) -> io::Result<usize> {
            if let Err(e) = self.ctl.hit("append", &self.path) { self.tear(b, true); return Err(e); }
            self.inner.append(b)
        }
    }
    impl FileSystem for FaultFs {
        fn get_name(&self) -> String { "FaultFs".to_string() }
        fn create_dir(&self, p: &Path) -> io::Result<()> { self.inner.create_dir(p) }
        fn create_dir_all(&self, p: &Path) -> io::Result<()> { self.inner.create_dir_all(p) }
        fn list_dir(&self, p: &Path) -> io::Result<Vec<PathBuf>> { self.inner.list_dir(p) }
        fn open_file(&self, p: &Path) -> io::Result<Box<dyn ReadonlyRandomAccessFile>> { self.ctl.hit("open_file", p)?; self.inner.open_file(p) }
        fn rename(&self, a: &Path, b: &Path) -> io::Result<()> { self.ctl.hit("rename", a)?; self.inner.rename(a, b) }
        fn create_file(&self, p: &Path, append: bool) -> io::Result<Box<dyn RandomAccessFile>> {
            self.ctl.hit("create_file", p)?;
            Ok(Box::new(FaultFile { inner: self.inner.create_file(p, append)?, ctl: Arc::clone(&self.ctl), path: p.to_path_buf() }))
        }
        fn remove_file(&self, p: &Path) -> io::Result<()> { self.ctl.hit("remove_file", p)?; self.inner.remove_file(p) }
        fn remove_dir(&self, p: &Path) -> io::Result<()> { self.inner.remove_dir(p) }
        fn remove_dir_all(&self, p: &Path) -> io::Result<()> { self.inner.remove_dir_all(p) }
        fn get_file_size(&self, p: &Path) -> io::Result<u64> { self.ctl.hit("get_file_size", p)?; self.inner.get_file_size(p) }
        fn is_dir(&self, p: &Path) -> io::Result<bool> { self.inner.is_dir(p) }
        fn lock_file(&self, p: &Path) -> io::Result<FileLock> { self.inner.lock_file(p) }
    }

    type World = BTreeMap<Vec<u8>, Vec<u8>>;
    fn apply(w: &mut World, ws: &[(Vec<u8>, Option<Vec<u8>>)]) {
        for (k, v) in ws { match v { Some(v) => { w.insert(k.clone(), v.clone()); } None => { w.remove(k); } } }
    }

    pub struct Outcome {
        /// counted file-system calls of the run
        pub calls: usize,
        /// what the injected fault hit (first few)
        pub fired: Vec<String>,
        /// violations of C08 seen through the public API
        pub bad: Vec<String>,
        /// API results, for the report
        pub trace: Vec<String>,
    }

    /// reads every key; the non-failing reads must agree with ONE of the possible worlds
    fn check_reads(d: &DB, keys: &[Vec<u8>], worlds: &[World], allow_errors: bool, at: &str, bad: &mut Vec<String>, trace: &mut Vec<String>) {
        let mut seen: Vec<(Vec<u8>, Option<Vec<u8>>)> = vec![];
        for k in keys {
            match d.get(ReadOptions::default(), k) {
                Ok(v) => seen.push((k.clone(), Some(v))),
                Err(crate::RainDBError::KeyNotFound) => seen.push((k.clone(), None)),
                Err(e) => {
                    trace.push(format!("{}: get {} -> error {}", at, hexs(k), e));
                    if !allow_errors { bad.push(format!("{}: get {} fails with `{}` although no fault is active", at, hexs(k), e)); }
                }
            }
        }
        let ok = worlds.iter().any(|w| seen.iter().all(|(k, v)| w.get(k) == v.as_ref()));
        if !ok {
            let show: Vec<String> = seen.iter().map(|(k, v)| format!("{}={}", hexs(k), v.as_ref().map(|v| hexs(v)).unwrap_or("notfound".to_string()))).collect();
            let w0: Vec<String> = worlds[0].iter().map(|(k, v)| format!("{}={}", hexs(k), hexs(v))).collect();
            bad.push(format!("{}: reads [{}] match none of the {} states allowed by the acknowledged writes (acknowledged only: [{}])", at, show.join(" "), worlds.len(), w0.join(" ")));
        }
    }

    /// Runs the history with the fault armed at counted call `fail_at` (None = no fault).
    /// C11 (second sentence): with no snapshot / iterator alive and the background work idle, the
    /// directory holds exactly the table files of the current version, one manifest (the one CURRENT
    /// names) and no temp file.  Sampled for up to 3 s (a compaction may still be finishing); only a
    /// mismatch that persists over all samples is reported.  Write-ahead logs are not judged.
    pub fn leftovers(d: &DB, fs: &Arc<dyn FileSystem>, db_path: &str) -> Option<String> {
        use crate::db::DatabaseDescriptor;
        let names = FileNameHandler::new(db_path.to_string());
        let mut last = String::new();
        for _ in 0..30 {
            let live: std::collections::BTreeSet<u64> = match d.get_descriptor(DatabaseDescriptor::SSTables) {
                Ok(s) => s.lines().filter_map(|l| l.split_whitespace().next().and_then(|w| w.parse::<u64>().ok())).collect(),
                Err(_) => return None,
            };
            let stem_num = |p: &PathBuf| p.file_stem().and_then(|x| x.to_str()).and_then(|x| x.rsplit('-').next().map(|y| y.to_string())).and_then(|x| x.parse::<u64>().ok());
            let ext = |p: &PathBuf, e: &str| p.extension().and_then(|x| x.to_str()) == Some(e);
            let data: Vec<PathBuf> = fs.list_dir(&names.get_data_dir()).unwrap_or_default();
            let root: Vec<PathBuf> = fs.list_dir(&names.get_db_path()).unwrap_or_default();
            let on_disk: std::collections::BTreeSet<u64> = data.iter().filter(|p| ext(p, "rdb")).filter_map(|p| stem_num(p)).collect();
            let temps: Vec<String> = data.iter().chain(root.iter()).filter(|p| ext(p, "dbtemp")).map(|p| p.display().to_string()).collect();
            let manifests: Vec<String> = root.iter().filter(|p| ext(p, "manifest")).map(|p| p.file_name().unwrap().to_string_lossy().to_string()).collect();
            let mut current = String::new();
            if let Ok(mut f) = fs.open_file(&names.get_current_file_path()) { let _ = f.read_to_string(&mut current); }
            let current = current.trim().to_string();
            let extra: Vec<u64> = on_disk.difference(&live).cloned().collect();
            let missing: Vec<u64> = live.difference(&on_disk).cloned().collect();
            let stale_manifests: Vec<&String> = manifests.iter().filter(|m| !current.ends_with(m.as_str())).collect();
            if std::env::var("VERIF_FAULTS_VERBOSE").is_ok() { eprintln!("leftovers: live={:?} on_disk={:?} temps={:?} manifests={:?} current={}", live, on_disk, temps, manifests, current); }
            if extra.is_empty() && missing.is_empty() && temps.is_empty() && stale_manifests.is_empty() { return None; }
            last = format!("table files not in the current version: {:?}; table files of the current version that are gone: {:?}; temp files: {:?}; manifests other than the one CURRENT names ({}): {:?}", extra, missing, temps, current, stale_manifests);
            std::thread::sleep(std::time::Duration::from_millis(100));
        }
        Some(format!("the directory still holds, after 3 s without any activity: {}", last))
    }

    /// mode: "transient" (that call only), "sticky" (that call and all later ones), "torn1" / "torn" /
    /// "tornm1" (sticky, and a failing write leaves one byte / the first half / all but the last byte
    /// of its buffer in the file), "torn_once" (that call only; if it is a write it leaves the first
    /// half of its buffer in the file)
    /// checks: "further" = after the clean reopen one more key is written and the database is
    /// reopened again (C02 last sentence, C16); "dircheck" = the directory is then compared with the
    /// current version (C11 second sentence)
    pub fn run(ops: &[DbOp], keys: &[Vec<u8>], fail_at: Option<usize>, mode: &str, reuse: bool, checks: &[String]) -> Outcome {
        let further = checks.iter().any(|c| c == "further" || c == "dircheck");
        let dircheck = checks.iter().any(|c| c == "dircheck");
        let ctl = Arc::new(FaultCtl { count: AtomicUsize::new(0), fail_at: AtomicUsize::new(fail_at.unwrap_or(usize::MAX)), sticky: AtomicBool::new(mode != "transient" && mode != "torn_once"), torn: AtomicUsize::new(match mode { "torn1" => 1, "torn" | "torn_once" => 2, "tornm1" => 3, _ => 0 }), fired: Mutex::new(vec![]) });
        let mut options = DbOptions::with_memory_env();
        options.create_if_missing = true;
        options.reuse_log_files = reuse;
        let inner = Arc::clone(&options.filesystem_provider);
        let raw_fs = Arc::clone(&inner);
        options.filesystem_provider = Arc::new(FaultFs { inner, ctl: Arc::clone(&ctl) });
        let mut bad = vec![];
        let mut trace = vec![];
        let mut worlds: Vec<World> = vec![World::new()];
        let mut acked = 0usize;
        // more failed writes than the set of allowed states can follow: nothing is judged afterwards
        let mut overflow = false;
        let mut db = match DB::open(options.clone()) { Ok(d) => Some(d), Err(e) => { trace.push(format!("open -> Err {}", e)); None } };
        for (i, op) in ops.iter().enumerate() {
            let writes: Option<Vec<(Vec<u8>, Option<Vec<u8>>)>> = match op {
                DbOp::Put(k, v) => Some(vec![(k.clone(), Some(v.clone()))]),
                DbOp::Delete(k) => Some(vec![(k.clone(), None)]),
                DbOp::Batch(b) => Some(b.clone()),
                _ => None,
            };
            if let DbOp::Reopen(_) | DbOp::Plant = op {
                drop(db.take());
                if let DbOp::Plant = op {
                    let names = FileNameHandler::new(options.db_path().to_string());
                    for p in [names.get_table_file_path(900), names.get_temp_file_path(901), names.get_manifest_file_path(0)] {
                        if let Ok(mut f) = raw_fs.create_file(&p, false) { let _ = f.write_all(b"left behind by a crash"); }
                    }
                }
                db = match DB::open(options.clone()) { Ok(d) => Some(d), Err(e) => { trace.push(format!("op{} reopen -> Err {}", i, e)); None } };
                if let Some(d) = db.as_ref() { if !overflow { check_reads(d, keys, &worlds, true, &format!("after op{} (reopen)", i), &mut bad, &mut trace); } }
                continue;
            }
            let d = match db.as_ref() { Some(d) => d, None => continue };
            if let Some(ws) = writes {
                let r = d.apply(WriteOptions::default(), make_batch(&ws));
                match r {
                    Ok(()) => { acked += 1; for w in worlds.iter_mut() { apply(w, &ws); } trace.push(format!("op{} write -> Ok", i)); }
                    Err(e) => {
                        trace.push(format!("op{} write -> Err {}", i, e));
                        if worlds.len() <= 2048 {
                            let mut more = worlds.clone();
                            for w in more.iter_mut() { apply(w, &ws); }
                            worlds.extend(more);
                            worlds.sort(); worlds.dedup();
                        } else { overflow = true; }
                    }
                }
            } else {
                match op {
                    DbOp::Flush => { let r = d.force_memtable_compaction(); trace.push(format!("op{} flush -> {}", i, if r.is_ok() { "Ok".to_string() } else { format!("Err {}", r.unwrap_err()) })); }
                    DbOp::CompactAll => { d.compact_range(None..None); trace.push(format!("op{} compact", i)); }
                    _ => {}
                }
            }
            if !overflow { check_reads(d, keys, &worlds, true, &format!("after op{}", i), &mut bad, &mut trace); }
        }
        // the fault goes away; the database is reopened
        ctl.fail_at.store(usize::MAX, AO::SeqCst);
        drop(db.take());
        let calls = ctl.count.load(AO::SeqCst);
        match DB::open(options.clone()) {
            Ok(d) => {
                if !overflow { check_reads(&d, keys, &worlds, false, "after the fault is gone and the database is reopened", &mut bad, &mut trace); }
                // the recovered database is usable: a further write succeeds and survives a clean reopen
                let fresh = (b"~fresh".to_vec(), Some(b"1".to_vec()));
                if further { match d.apply(WriteOptions::default(), make_batch(&[fresh.clone()])) {
                    Ok(()) => {
                        for w in worlds.iter_mut() { apply(w, &[fresh.clone()]); }
                        drop(d);
                        let mut keys2 = keys.to_vec();
                        keys2.push(fresh.0.clone());
                        match DB::open(options.clone()) {
                            Ok(d2) => {
                                if !overflow { check_reads(&d2, &keys2, &worlds, false, "after a further write and a second clean reopen", &mut bad, &mut trace); }
                                if dircheck { if let Some(msg) = leftovers(&d2, &raw_fs, options.db_path()) { bad.push(msg); } }
                            }
                            Err(e) => bad.push(format!("after a further write the recovered database does not open again (`{}`)", e)),
                        }
                    }
                    Err(e) => bad.push(format!("the recovered database (no fault active) rejects a further write: `{}`", e)),
                } }
            }
            Err(e) => { if acked > 0 { bad.push(format!("after the fault is gone the database does not open (`{}`) although {} writes were acknowledged", e, acked)); } }
        }
        let fired = ctl.fired.lock().unwrap().clone();
        Outcome { calls, fired, bad, trace }
    }
}

// ---- scans and lookups over a damaged table file (C15; oracle scan_damage) ----------------------
pub struct DamageOutcome {
    pub open_error: Option<String>,
    /// per key: "value:<hex>" / "notfound" / "error:.."
    pub gets: Vec<String>,
    pub forward: Vec<(Vec<u8>, Vec<u8>)>,
    pub forward_error: Option<String>,
    pub backward: Vec<(Vec<u8>, Vec<u8>)>,
    pub backward_error: Option<String>,
}

/// Runs the history with small blocks (so that a table has many data blocks), applying
/// `DamageTable` steps, and reads the final state back through get and both scan directions.
/// Nothing is unwrapped on the read side: an error is an outcome, not a crash.
pub fn run_damage(ops: &[DbOp], keys: &[Vec<u8>]) -> DamageOutcome {
    use crate::RainDbIterator;
    use std::io::{Read, Write};
    let mut options = DbOptions::with_memory_env();
    options.create_if_missing = true;
    options.max_block_size = 256;
    let mut out = DamageOutcome { open_error: None, gets: vec![], forward: vec![], forward_error: None, backward: vec![], backward_error: None };
    let mut db = Some(DB::open(options.clone()).unwrap());
    for op in ops {
        match op {
            DbOp::Put(k, v) => db.as_ref().unwrap().put(WriteOptions::default(), k.clone(), v.clone()).unwrap(),
            DbOp::Delete(k) => db.as_ref().unwrap().delete(WriteOptions::default(), k.clone()).unwrap(),
            DbOp::Flush => db.as_ref().unwrap().force_memtable_compaction().unwrap(),
            DbOp::CompactAll => db.as_ref().unwrap().compact_range(None..None),
            DbOp::Batch(b) => db.as_ref().unwrap().apply(WriteOptions::default(), make_batch(b)).unwrap(),
            DbOp::DamageTable(num, den, mask) => {
                drop(db.take());
                let fs = options.filesystem_provider();
                let names = crate::file_names::FileNameHandler::new(options.db_path().to_string());
                let mut tables: Vec<std::path::PathBuf> = fs.list_dir(&names.get_data_dir()).unwrap_or_default().into_iter()
                    .filter(|p| p.extension().map_or(false, |e| e == "rdb")).collect();
                tables.sort_by_key(|p| p.file_stem().and_then(|s| s.to_string_lossy().parse::<u64>().ok()).unwrap_or(0));
                if let Some(t) = tables.last() {
                    let mut bytes = vec![];
                    fs.open_file(t).unwrap().read_to_end(&mut bytes).unwrap();
                    if !bytes.is_empty() && *den > 0 {
                        let pos = (bytes.len() * *num / *den).min(bytes.len() - 1);
                        bytes[pos] ^= *mask;
                        let mut f = fs.create_file(t, false).unwrap();
                        f.write_all(&bytes).unwrap();
                    }
                }
                options.create_if_missing = false;
                match DB::open(options.clone()) {
                    Ok(d) => db = Some(d),
                    Err(e) => { out.open_error = Some(format!("{}", e)); return out; }
                }
            }
            DbOp::ManifestFragmentType(k) => {
                drop(db.take());
                let fs = options.filesystem_provider();
                let root = std::path::PathBuf::from(options.db_path());
                let mut manifests: Vec<std::path::PathBuf> = fs.list_dir(&root).unwrap_or_default().into_iter()
                    .filter(|p| p.file_name().map_or(false, |n| n.to_string_lossy().starts_with("MANIFEST"))).collect();
                manifests.sort();
                if let Some(m) = manifests.last() {
                    let mut bytes = vec![];
                    fs.open_file(m).unwrap().read_to_end(&mut bytes).unwrap();
                    // walk the fragments: 7-byte header (checksum 4, length 2, type 1), blocks of 32 KiB
                    let mut frags: Vec<usize> = vec![];
                    let mut pos = 0usize;
                    while pos + 7 <= bytes.len() {
                        let left = 32768 - pos % 32768;
                        if left < 7 { pos += left; continue; }
                        let len = bytes[pos + 4] as usize | (bytes[pos + 5] as usize) << 8;
                        if pos + 7 + len > bytes.len() { break; }
                        frags.push(pos);
                        pos += 7 + len;
                    }
                    if *k < frags.len() {
                        let at = frags[frags.len() - 1 - *k] + 6;
                        if bytes[at] == 0 {
                            bytes[at] = 1;
                            let mut f = fs.create_file(m, false).unwrap();
                            f.write_all(&bytes).unwrap();
                        }
                    }
                }
                options.create_if_missing = false;
                match DB::open(options.clone()) {
                    Ok(d) => db = Some(d),
                    Err(e) => { out.open_error = Some(format!("{}", e)); return out; }
                }
            }
            _ => {}
        }
    }
    let d = db.as_ref().unwrap();
    out.gets = keys.iter().map(|k| match d.get(ReadOptions::default(), k) {
        Ok(v) => format!("value:{}", hexs(&v)),
        Err(crate::RainDBError::KeyNotFound) => "notfound".to_string(),
        Err(e) => format!("error:{}", e).replace('\n', " "),
    }).collect();
    match d.new_iterator(ReadOptions::default()) {
        Err(e) => out.forward_error = Some(format!("{}", e)),
        Ok(mut it) => {
            if let Err(e) = it.seek_to_first() { out.forward_error = Some(format!("{}", e)); }
            else { while it.is_valid() { let (k, v) = it.current().unwrap(); out.forward.push((k.clone(), v.clone())); it.next(); } }
        }
    }
    match d.new_iterator(ReadOptions::default()) {
        Err(e) => out.backward_error = Some(format!("{}", e)),
        Ok(mut it) => {
            if let Err(e) = it.seek_to_last() { out.backward_error = Some(format!("{}", e)); }
            else { while it.is_valid() { let (k, v) = it.current().unwrap(); out.backward.push((k.clone(), v.clone())); it.prev(); } }
        }
    }
    out
}

// ---- a table written with one filter policy and read with another (C14 / C01; oracle policy_switch) ----
/// A filter policy with its own filter format (first byte 0xEE, then length-prefixed keys; exact
/// membership) whose name sorts BEFORE the name of the built-in Bloom policy.
#[derive(Debug)]
pub struct MarkerPolicy;
impl crate::FilterPolicy for MarkerPolicy {
    fn get_name(&self) -> String { "A.MarkerPolicy".to_string() }
    fn create_filter(&self, keys: &[Vec<u8>]) -> Vec<u8> {
        let mut f = vec![0xEE];
        for k in keys { f.push(k.len() as u8); f.extend_from_slice(k); }
        f
    }
    fn key_may_match(&self, key: &[u8], serialized_filter: &[u8]) -> Result<bool, crate::filter_policy::FilterPolicyError> {
        if serialized_filter.first() != Some(&0xEE) { return Ok(false); }
        let mut i = 1;
        while i < serialized_filter.len() {
            let n = serialized_filter[i] as usize;
            if i + 1 + n <= serialized_filter.len() && &serialized_filter[i + 1..i + 1 + n] == key { return Ok(true); }
            i += 1 + n;
        }
        Ok(false)
    }
}

/// Runs the history with the default (Bloom) policy, closes, reopens with `MarkerPolicy` (or, when
/// `back` is set, writes with MarkerPolicy and reopens with Bloom) and looks every key up.
pub fn run_policy_switch(ops: &[DbOp], keys: &[Vec<u8>], back: bool) -> Result<Vec<String>, String> {
    let mut options = DbOptions::with_memory_env();
    options.create_if_missing = true;
    if back { options.filter_policy = Arc::new(MarkerPolicy); }
    {
        let db = DB::open(options.clone()).map_err(|e| format!("{}", e))?;
        for op in ops {
            match op {
                DbOp::Put(k, v) => db.put(WriteOptions::default(), k.clone(), v.clone()).unwrap(),
                DbOp::Delete(k) => db.delete(WriteOptions::default(), k.clone()).unwrap(),
                DbOp::Flush => db.force_memtable_compaction().unwrap(),
                DbOp::CompactAll => db.compact_range(None..None),
                _ => {}
            }
        }
    }
    options.create_if_missing = false;
    options.filter_policy = if back { Arc::new(crate::BloomFilterPolicy::new(10)) } else { Arc::new(MarkerPolicy) };
    let db = DB::open(options).map_err(|e| format!("{}", e))?;
    Ok(keys.iter().map(|k| match db.get(ReadOptions::default(), k) {
        Ok(v) => format!("value:{}", hexs(&v)),
        Err(crate::RainDBError::KeyNotFound) => "notfound".to_string(),
        Err(e) => format!("error:{}", e).replace('\n', " "),
    }).collect())
}
