//! Replays a concrete input on the REAL raindb code (scratch copy built with --cfg raindb_verif)
//! and evaluates an executable oracle.  Input: a line-oriented text file (written by
//! tools/replay.py from the JSON replay file).  Output: `REPLAY violated ...` or `REPLAY holds`.
use raindb::db::verif_api as api;
use std::io::BufRead;

fn unhex(s: &str) -> Vec<u8> {
    if s == "-" {
        return vec![];
    }
    (0..s.len() / 2).map(|i| u8::from_str_radix(&s[2 * i..2 * i + 2], 16).unwrap()).collect()
}
fn hx(b: &[u8]) -> String {
    b.iter().map(|x| format!("{:02x}", x)).collect()
}
fn hex(b: &[u8]) -> String {
    if b.is_empty() {
        return "-".to_string();
    }
    b.iter().map(|x| format!("{:02x}", x)).collect()
}

/// `gen N byte` produces N bytes of a repeating pattern (keeps replay files small for 32 KiB records)
fn payload(tok: &[&str]) -> Vec<u8> {
    if tok[0] == "gen" {
        let n: usize = tok[1].parse().unwrap();
        let seed: u8 = tok[2].parse().unwrap();
        (0..n).map(|i| seed.wrapping_add((i % 251) as u8)).collect()
    } else {
        unhex(tok[0])
    }
}

fn main() {
    let path = std::env::args().nth(1).expect("usage: verif-replay <file>");
    let f = std::fs::File::open(&path).unwrap();
    let lines: Vec<String> = std::io::BufReader::new(f).lines().map(|l| l.unwrap()).collect();
    let mut oracle = String::new();
    let mut ops = vec![];
    let mut files = vec![];
    let mut entries: Vec<(Vec<u8>, u64, u8, Vec<u8>)> = vec![];
    let mut lookups: Vec<(Vec<u8>, u64)> = vec![];
    let mut block_size = 4096usize;
    let mut dbops: Vec<api::DbOp> = vec![];
    let mut moves = "nnpnppnnnpnpp".to_string();
    let mut reuse = false;
    let mut only_fault: Option<(usize, String)> = None;
    let mut modes: Vec<String> = vec!["transient".to_string(), "sticky".to_string()];
    let mut checks: Vec<String> = vec![];
    let mut raw_bytes: Vec<Vec<u8>> = vec![];
    let mut blooms: Vec<(usize, Vec<Vec<u8>>)> = vec![];
    let mut encodes: Vec<(u64, Vec<(Vec<u8>, Option<Vec<u8>>)>)> = vec![];
    for l in &lines {
        let t: Vec<&str> = l.split_whitespace().collect();
        if t.is_empty() {
            continue;
        }
        match t[0] {
            "oracle" => oracle = t[1].to_string(),
            "op" => match t[1] {
                "append" => ops.push(api::LogOp::Append(payload(&t[2..]))),
                "emit" => ops.push(api::LogOp::Emit(t[2].parse().unwrap(), payload(&t[3..]))),
                "reopen" => ops.push(api::LogOp::Reopen),
                "flip" => ops.push(api::LogOp::Flip(t[2].parse().unwrap(), t[3].parse().unwrap())),
                "truncate" => ops.push(api::LogOp::Truncate(t[2].parse().unwrap())),
                "peek" => ops.push(api::LogOp::Peek(t[2].parse().unwrap())),
                _ => panic!("bad op"),
            },
            "db" => match t[1] {
                "put" => dbops.push(api::DbOp::Put(unhex(t[2]), unhex(t[3]))),
                "delete" => dbops.push(api::DbOp::Delete(unhex(t[2]))),
                "flush" => dbops.push(api::DbOp::Flush),
                "compact" => dbops.push(api::DbOp::CompactAll),
                "snapshot" => dbops.push(api::DbOp::Snapshot),
                "pin" => dbops.push(api::DbOp::PinIterator(t.get(2).map(|x| *x == "positioned").unwrap_or(false))),
                // batch k1 v1 k2 ! ...   ('!' as value = delete)
                "batch" => dbops.push(api::DbOp::Batch(t[2..].chunks(2).map(|c| (unhex(c[0]), if c[1] == "!" { None } else { Some(unhex(c[1])) })).collect())),
                "reopen" => dbops.push(api::DbOp::Reopen(t[2] == "reuse")),
                "plant" => dbops.push(api::DbOp::Plant),
                // compact_level <level> <lo|-> <hi|->   ('-' = open end)
                "compact_level" => dbops.push(api::DbOp::CompactLevel(t[2].parse().unwrap(), if t[3] == "-" { None } else { Some(unhex(t[3])) }, if t[4] == "-" { None } else { Some(unhex(t[4])) })),
                "release" => dbops.push(api::DbOp::ReleaseSnapshot),
                "reopen_small" => dbops.push(api::DbOp::ReopenSmallFiles(t[2].parse().unwrap())),
                // damage_manifest <bytes before the end> <xor mask>
                "damage_manifest" => dbops.push(api::DbOp::DamageManifest(t[2].parse().unwrap(), t[3].parse().unwrap())),
                // damage_table <num> <den> <xor mask>: the byte at len * num / den of the newest table file
                "get_many" => dbops.push(api::DbOp::GetMany(unhex(t[2]), t[3].parse().unwrap())),
                "sleep" => dbops.push(api::DbOp::Sleep(t[2].parse().unwrap())),
                "dircheck" => dbops.push(api::DbOp::DirCheck),
                // manifest_fragment_type <k>: the type code of the k-th fragment from the end of the manifest, Full -> First
                "manifest_fragment_type" => dbops.push(api::DbOp::ManifestFragmentType(t[2].parse().unwrap())),
                "damage_table" => dbops.push(api::DbOp::DamageTable(t[2].parse().unwrap(), t[3].parse().unwrap(), t[4].parse().unwrap())),
                _ => panic!("bad db op"),
            },
            "entry" => entries.push((unhex(t[1]), t[2].parse().unwrap(), t[3].parse().unwrap(), unhex(t[4]))),
            "lookup" => lookups.push((unhex(t[1]), t[2].parse().unwrap())),
            "block_size" => block_size = t[1].parse().unwrap(),
            "bloom" => blooms.push((t[1].parse().unwrap(), t[2..].iter().map(|x| unhex(x)).collect())),
            "bytes" => raw_bytes.push(unhex(t[1])),
            "encode" => encodes.push((t[1].parse().unwrap(), t[2..].chunks(2).map(|c| (unhex(c[0]), if c[1] == "!" { None } else { Some(unhex(c[1])) })).collect())),
            "moves" => moves = t[1].to_string(),
            "reuse" => reuse = t[1] == "1",
            "fault" => only_fault = Some((t[1].parse().unwrap(), t[2].to_string())),
            "modes" => modes = t[1..].iter().map(|x| x.to_string()).collect(),
            "checks" => checks = t[1..].iter().map(|x| x.to_string()).collect(),
            "file" => files.push((
                api::ikey(&unhex(t[1]), t[2].parse().unwrap(), 1),
                api::ikey(&unhex(t[3]), t[4].parse().unwrap(), 1),
            )),
            _ => {}
        }
    }
    match oracle.as_str() {
        // real LogWriter + LogReader vs the executable reference reader on the same bytes
        "log_reader" => {
            let (actual, err, bytes) = api::run_log(&ops);
            let expected = api::reference_read(&bytes);
            let show = |v: &Vec<Vec<u8>>| {
                v.iter().map(|r| if r.len() > 24 { format!("{}..({}B)", hex(&r[..8]), r.len()) } else { hex(r) }).collect::<Vec<_>>().join(",")
            };
            // scripts without damage (only append / reopen / peek): the reader must return exactly the
            // records that were appended, in order (C12, first sentence) - not merely what the bytes
            // in the file decode to
            let pure = ops.iter().all(|o| matches!(o, api::LogOp::Append(_) | api::LogOp::Reopen | api::LogOp::Peek(_)));
            let appended: Vec<Vec<u8>> = ops.iter().filter_map(|o| if let api::LogOp::Append(d) = o { Some(d.clone()) } else { None }).collect();
            if pure && actual != appended {
                println!(
                    "REPLAY violated oracle=log_reader file_len={} returned=[{}] appended=[{}] error={:?}",
                    bytes.len(), show(&actual), show(&appended), err
                );
            } else if actual != expected || err.is_some() {
                println!(
                    "REPLAY violated oracle=log_reader file_len={} returned=[{}] expected=[{}] error={:?}",
                    bytes.len(), show(&actual), show(&expected), err
                );
            } else {
                println!("REPLAY holds oracle=log_reader records={}", actual.len());
            }
        }
        // get_key_range_for_files must cover every file (start <= every smallest; end user key >= every largest user key)
        "key_range" => {
            let (s, e) = api::key_range_for_files(&files);
            let mut bad = vec![];
            for (i, (fs, fl)) in files.iter().enumerate() {
                if !(s <= *fs) {
                    bad.push(format!("start > smallest of file {}", i));
                }
                if api::key_parts(fl).0 > api::key_parts(&e).0 {
                    bad.push(format!("end user key {} < largest user key {} of file {}", hex(&api::key_parts(&e).0), hex(&api::key_parts(fl).0), i));
                }
            }
            if bad.is_empty() {
                println!("REPLAY holds oracle=key_range");
            } else {
                println!("REPLAY violated oracle=key_range {}", bad.join("; "));
            }
        }
        // C15: reads over a damaged table file.  A lookup must answer correctly or fail; a scan must
        // show the visible pairs or fail.  The kind of disagreement is reported: `scan-ends-early-
        // without-error` (entries are missing from a scan whose every shown pair is right, and no
        // error was visible) is finding F13; everything else is `wrong-result`.
        // C15: the type code of one manifest fragment is altered while the database is closed.  `open`
        // must refuse the manifest, or everything read afterwards must be right.  The history is run
        // twice: as it is (control; the altering step is a plain reopen) and with the alteration.
        // A disagreement of the control run is `wrong-result`; a disagreement that only the altered
        // run shows is `altered-fragment-type-goes-unnoticed` (finding F15).
        "manifest_type" => {
            let mut model: std::collections::BTreeMap<Vec<u8>, Option<Vec<u8>>> = Default::default();
            for op in &dbops {
                match op {
                    api::DbOp::Put(k, v) => { model.insert(k.clone(), Some(v.clone())); }
                    api::DbOp::Delete(k) => { model.insert(k.clone(), None); }
                    _ => {}
                }
            }
            let keys: Vec<Vec<u8>> = model.keys().cloned().collect();
            let control: Vec<api::DbOp> = dbops.iter().map(|o| match o { api::DbOp::ManifestFragmentType(_) => api::DbOp::ManifestFragmentType(usize::MAX), _ => o.clone() }).collect();
            let judge = |o: &api::DamageOutcome| -> Vec<String> {
                let mut wrong = vec![];
                if o.open_error.is_some() { return wrong; }
                for (k, a) in keys.iter().zip(o.gets.iter()) {
                    if a.starts_with("error:") { continue; }
                    let e = match model.get(k) { Some(Some(val)) => format!("value:{}", hx(val)), _ => "notfound".to_string() };
                    if *a != e { wrong.push(format!("get({}) returned {} expected {}", hex(k), a, e)); }
                }
                let vis: Vec<(Vec<u8>, Vec<u8>)> = model.iter().filter_map(|(k, v)| v.as_ref().map(|v| (k.clone(), v.clone()))).collect();
                if o.forward_error.is_none() && o.forward != vis { wrong.push(format!("forward scan shows {} pairs, expected {}", o.forward.len(), vis.len())); }
                wrong
            };
            let c = api::run_damage(&control, &keys);
            if c.open_error.is_some() { println!("REPLAY violated oracle=manifest_type kind=wrong-result the unaltered database does not reopen: {}", c.open_error.unwrap().replace('\n', " ")); return; }
            let cw = judge(&c);
            if !cw.is_empty() { println!("REPLAY violated oracle=manifest_type kind=wrong-result (unaltered manifest) {}", cw.join("; ")); return; }
            let o = api::run_damage(&dbops, &keys);
            if let Some(e) = &o.open_error { println!("REPLAY holds oracle=manifest_type open refused the altered manifest: {}", e.replace('\n', " ")); return; }
            let w = judge(&o);
            if !w.is_empty() { println!("REPLAY violated oracle=manifest_type kind=altered-fragment-type-goes-unnoticed open accepted the manifest; {}", w.join("; ")); }
            else { println!("REPLAY holds oracle=manifest_type gets={}", o.gets.len()); }
        }
        // C14 / C01: a table file written under one filter policy is read under another one (a setting
        // changed between reopens): every key must still be found - a filter of the other policy must
        // not be consulted
        "policy_switch" | "policy_switch_back" => {
            let mut model: std::collections::BTreeMap<Vec<u8>, Option<Vec<u8>>> = Default::default();
            for op in &dbops {
                match op {
                    api::DbOp::Put(k, v) => { model.insert(k.clone(), Some(v.clone())); }
                    api::DbOp::Delete(k) => { model.insert(k.clone(), None); }
                    _ => {}
                }
            }
            let keys: Vec<Vec<u8>> = model.keys().cloned().collect();
            match api::run_policy_switch(&dbops, &keys, oracle == "policy_switch_back") {
                Err(e) => println!("REPLAY violated oracle={} the database does not open: {}", oracle, e.replace('\n', " ")),
                Ok(gets) => {
                    let mut wrong = vec![];
                    for (k, a) in keys.iter().zip(gets.iter()) {
                        let e = match model.get(k) { Some(Some(val)) => format!("value:{}", hx(val)), _ => "notfound".to_string() };
                        if *a != e { wrong.push(format!("get({}) returned {} expected {}", hex(k), a, e)); }
                    }
                    if wrong.is_empty() { println!("REPLAY holds oracle={} gets={}", oracle, gets.len()); }
                    else { println!("REPLAY violated oracle={} {}", oracle, wrong.join("; ")); }
                }
            }
        }
        "scan_damage" => {
            let mut model: std::collections::BTreeMap<Vec<u8>, Option<Vec<u8>>> = Default::default();
            for op in &dbops {
                match op {
                    api::DbOp::Put(k, v) => { model.insert(k.clone(), Some(v.clone())); }
                    api::DbOp::Delete(k) => { model.insert(k.clone(), None); }
                    api::DbOp::Batch(ops) => { for (k, v) in ops { model.insert(k.clone(), v.clone()); } }
                    _ => {}
                }
            }
            let keys: Vec<Vec<u8>> = model.keys().cloned().collect();
            let o = api::run_damage(&dbops, &keys);
            if let Some(e) = &o.open_error { println!("REPLAY holds oracle=scan_damage open refused the damaged table: {}", e.replace('\n', " ")); return; }
            let vis: Vec<(Vec<u8>, Vec<u8>)> = model.iter().filter_map(|(k, v)| v.as_ref().map(|v| (k.clone(), v.clone()))).collect();
            let mut wrong = vec![];
            let mut early = vec![];
            for (k, a) in keys.iter().zip(o.gets.iter()) {
                if a.starts_with("error:") { continue; }
                let e = match model.get(k) { Some(Some(val)) => format!("value:{}", hx(val)), _ => "notfound".to_string() };
                if *a != e { wrong.push(format!("get({}) returned {} expected {}", hex(k), a, e)); }
            }
            let mut judge = |name: &str, scan: &Vec<(Vec<u8>, Vec<u8>)>, err: &Option<String>, expected: &Vec<(Vec<u8>, Vec<u8>)>| {
                if err.is_some() || scan == expected { return; }
                // every pair shown is a pair of the model, in order: only entries are missing
                let mut pos = 0usize;
                let mut subseq = true;
                for e in scan { match expected[pos..].iter().position(|x| x == e) { Some(d) => pos += d + 1, None => { subseq = false; break; } } }
                if subseq { early.push(format!("{} scan showed {} of {} pairs (last {}) and no error", name, scan.len(), expected.len(), scan.last().map(|x| hex(&x.0)).unwrap_or("-".to_string()))); }
                else { wrong.push(format!("{} scan shows a pair that was never written or is out of order", name)); }
            };
            let mut rev = vis.clone(); rev.reverse();
            judge("forward", &o.forward, &o.forward_error, &vis);
            judge("backward", &o.backward, &o.backward_error, &rev);
            if !wrong.is_empty() { println!("REPLAY violated oracle=scan_damage kind=wrong-result {}", wrong.join("; ")); }
            else if !early.is_empty() { println!("REPLAY violated oracle=scan_damage kind=scan-ends-early-without-error {}", early.join("; ")); }
            else { println!("REPLAY holds oracle=scan_damage gets={} errors={}", o.gets.len(), o.gets.iter().filter(|g| g.starts_with("error:")).count()); }
        }
        // a single-client history on the real DB vs a map model (C01)
        "db_history" => {
            let mut model: std::collections::BTreeMap<Vec<u8>, Option<Vec<u8>>> = Default::default();
            for op in &dbops {
                match op {
                    api::DbOp::Put(k, v) => { model.insert(k.clone(), Some(v.clone())); }
                    api::DbOp::Delete(k) => { model.insert(k.clone(), None); }
                    api::DbOp::Batch(ops) => { for (k, v) in ops { model.insert(k.clone(), v.clone()); } }
                    _ => {}
                }
            }
            let keys: Vec<Vec<u8>> = model.keys().cloned().collect();
            let actual = api::run_history(&dbops, &keys);
            let mut bad = vec![];
            for (k, a) in keys.iter().zip(actual.iter()) {
                let e = match model.get(k).unwrap() {
                    Some(v) => format!("value:{}", v.iter().map(|b| format!("{:02x}", b)).collect::<String>()),
                    None => "notfound".to_string(),
                };
                if *a != e {
                    bad.push(format!("get({}) returned {} expected {}", hex(k), a, e));
                }
            }
            if bad.is_empty() { println!("REPLAY holds oracle=db_history keys={}", keys.len()); }
            else { println!("REPLAY violated oracle=db_history {}", bad.join("; ")); }
        }
        // every read view (each snapshot and the latest state) of the real DB at the end of a
        // history - get, forward scan, backward scan, seeks, zig-zag cursor walk - vs a sorted map
        // frozen at the moment the view was taken (C03, C04, C07)
        "db_views" => {
            type M = std::collections::BTreeMap<Vec<u8>, Option<Vec<u8>>>;
            let mut model: M = Default::default();
            let mut frozen: Vec<(usize, M)> = vec![];
            let mut frozen_pins: Vec<(usize, M)> = vec![];
            let mut allkeys: std::collections::BTreeSet<Vec<u8>> = Default::default();
            for (i, op) in dbops.iter().enumerate() {
                match op {
                    api::DbOp::Put(k, v) => { model.insert(k.clone(), Some(v.clone())); allkeys.insert(k.clone()); }
                    api::DbOp::Delete(k) => { model.insert(k.clone(), None); allkeys.insert(k.clone()); }
                    api::DbOp::Batch(ops) => { for (k, v) in ops { model.insert(k.clone(), v.clone()); allkeys.insert(k.clone()); } }
                    api::DbOp::Snapshot => frozen.push((i, model.clone())),
                    api::DbOp::PinIterator(_) => frozen_pins.push((i, model.clone())),
                    api::DbOp::Reopen(_) | api::DbOp::ReopenSmallFiles(_) | api::DbOp::DamageManifest(_, _) => { frozen.clear(); frozen_pins.clear(); }
                    api::DbOp::ReleaseSnapshot => { if !frozen.is_empty() { frozen.remove(0); } }
                    // (pinned iterators are read at the directory check, before they are given up: their frozen models stay)
                    api::DbOp::DirCheck => { frozen.clear(); }
                    _ => {}
                }
            }
            // keys of interest: every key written, plus a key just above each (seek targets in between)
            let mut keys: Vec<Vec<u8>> = vec![];
            for k in &allkeys { keys.push(k.clone()); let mut k2 = k.clone(); k2.push(0); keys.push(k2); }
            keys.push(vec![]);
            let (views, pins) = api::run_views_and_pins(&dbops, &keys, &moves);
            if let Some(e) = api::open_refused() {
                // C15: the damaged file was detected - `open` failed instead of serving wrong data
                println!("REPLAY holds oracle=db_views open refused the damaged manifest: {}", e.replace('\n', " "));
                return;
            }
            let mut bad = vec![];
            // C11: dead table files that are still on disk although nothing pins them
            for m in api::dircheck_findings() { bad.push(format!("dircheck {}", m)); }
            // iterators created in the middle of the history and read at the end: the state at creation
            for pscan in &pins {
                let m = &frozen_pins.iter().find(|(j, _)| *j == pscan.taken_at).unwrap().1;
                let vis: Vec<(Vec<u8>, Vec<u8>)> = m.iter().filter_map(|(k, v)| v.as_ref().map(|v| (k.clone(), v.clone()))).collect();
                let show = |l: &Vec<(Vec<u8>, Vec<u8>)>| l.iter().map(|(k, v)| format!("{}={}", hex(k), hex(v))).collect::<Vec<_>>().join(",");
                if pscan.forward != vis { bad.push(format!("iterator@op{}: forward scan [{}] expected [{}]", pscan.taken_at, show(&pscan.forward), show(&vis))); }
                let mut rev = vis.clone(); rev.reverse();
                if pscan.backward != rev { bad.push(format!("iterator@op{}: backward scan [{}] expected [{}]", pscan.taken_at, show(&pscan.backward), show(&rev))); }
            }
            for v in &views {
                let m: &M = match v.taken_at { Some(i) => &frozen.iter().find(|(j, _)| *j == i).unwrap().1, None => &model };
                let name = match v.taken_at { Some(i) => format!("snapshot@op{}", i), None => "latest".to_string() };
                let vis: Vec<(Vec<u8>, Vec<u8>)> = m.iter().filter_map(|(k, v)| v.as_ref().map(|v| (k.clone(), v.clone()))).collect();
                for (k, a) in keys.iter().zip(v.gets.iter()) {
                    let e = match m.get(k) { Some(Some(val)) => format!("value:{}", hx(val)), _ => "notfound".to_string() };
                    if *a != e { bad.push(format!("{}: get({}) returned {} expected {}", name, hex(k), a, e)); }
                }
                let show = |l: &Vec<(Vec<u8>, Vec<u8>)>| l.iter().map(|(k, v)| format!("{}={}", hex(k), hex(v))).collect::<Vec<_>>().join(",");
                if v.forward != vis { bad.push(format!("{}: forward scan [{}] expected [{}]", name, show(&v.forward), show(&vis))); }
                let mut rev = vis.clone(); rev.reverse();
                if v.backward != rev { bad.push(format!("{}: backward scan [{}] expected [{}]", name, show(&v.backward), show(&rev))); }
                for (k, a) in keys.iter().zip(v.seeks.iter()) {
                    let e = vis.iter().find(|(vk, _)| vk >= k).map(|(vk, _)| hx(vk)).unwrap_or("-".to_string());
                    if *a != e { bad.push(format!("{}: seek({}) landed on {} expected {}", name, hex(k), a, e)); }
                }
                // zig-zag
                let mut pos: i64 = 0;
                let mut exp = vec![];
                for mv in moves.chars() {
                    if pos < 0 || pos >= vis.len() as i64 { break; }
                    pos += if mv == 'n' { 1 } else { -1 };
                    exp.push(if pos < 0 || pos >= vis.len() as i64 { "-".to_string() } else { hx(&vis[pos as usize].0) });
                }
                if v.zigzag != exp { bad.push(format!("{}: cursor walk {} gave [{}] expected [{}]", name, moves, v.zigzag.join(","), exp.join(","))); }
                // cursor scripts (positioning, reversal right after a seek) against a model cursor
                let n = vis.len() as i64;
                for (k, row) in keys.iter().zip(v.scripts.iter()) {
                    for (sc, got) in api::SCRIPTS.iter().zip(row.iter()) {
                        let mut pos: i64 = -1; // -1 / n = invalid
                        let mut started = false;
                        for c in sc.chars() {
                            match c {
                                'F' => { pos = if n == 0 { -1 } else { 0 }; started = true; }
                                'L' => { if n == 0 { break; } pos = n - 1; started = true; }
                                'S' => { pos = vis.iter().position(|(vk, _)| vk >= k).map(|x| x as i64).unwrap_or(-1); started = true; }
                                'n' => { if !started || pos < 0 || pos >= n { break; } pos += 1; }
                                _ => { if !started || pos < 0 || pos >= n { break; } pos -= 1; }
                            }
                        }
                        let e = if started && pos >= 0 && pos < n { hx(&vis[pos as usize].0) } else { "-".to_string() };
                        if *got != e { bad.push(format!("{}: script {} with key {} ended on {} expected {}", name, sc, hex(k), got, e)); }
                    }
                }
            }
            if bad.is_empty() { println!("REPLAY holds oracle=db_views views={}", views.len()); }
            else { println!("REPLAY violated oracle=db_views {}", bad.join("; ")); }
        }
        // C08 (bounded stand-in): the history is run once per counted file-system call with that call
        // failing (once / from then on); acknowledged writes must stay visible while the fault is
        // active (or reads fail) and after a clean reopen; failed writes are all-or-nothing.
        "faults" => {
            let mut allkeys: std::collections::BTreeSet<Vec<u8>> = Default::default();
            for op in &dbops {
                match op {
                    api::DbOp::Put(k, _) | api::DbOp::Delete(k) => { allkeys.insert(k.clone()); }
                    api::DbOp::Batch(b) => { for (k, _) in b { allkeys.insert(k.clone()); } }
                    _ => {}
                }
            }
            let keys: Vec<Vec<u8>> = allkeys.into_iter().collect();
            let dbops = std::sync::Arc::new(dbops);
            let keys = std::sync::Arc::new(keys);
            // (outcome, panicked, hung)
            let run_one = |fail_at: Option<usize>, mode: String| -> Result<api::faults::Outcome, String> {
                let (tx, rx) = std::sync::mpsc::channel();
                let o = std::sync::Arc::clone(&dbops);
                let k = std::sync::Arc::clone(&keys);
                let checks = checks.clone();
                std::thread::spawn(move || {
                    let r = std::panic::catch_unwind(std::panic::AssertUnwindSafe(|| api::faults::run(&o, &k, fail_at, &mode, reuse, &checks)));
                    let _ = tx.send(r.map_err(|e| format!("panic: {}", e.downcast_ref::<String>().cloned().or(e.downcast_ref::<&str>().map(|s| s.to_string())).unwrap_or_default())));
                });
                match rx.recv_timeout(std::time::Duration::from_secs(20)) {
                    Ok(r) => r,
                    Err(_) => Err("hang (no answer within 20 s)".to_string()),
                }
            };
            let clean = run_one(None, "transient".to_string());
            let n = match &clean {
                Ok(o) if o.bad.is_empty() => o.calls,
                Ok(o) => { println!("REPLAY violated oracle=faults fault=none {}", o.bad.join("; ")); return; }
                Err(e) => { println!("REPLAY inconclusive oracle=faults fault=none {}", e); return; }
            };
            let positions: Vec<(usize, String)> = match only_fault {
                Some(p) => vec![p],
                None => (0..n).flat_map(|k| modes.iter().map(move |m| (k, m.clone()))).collect(),
            };
            let mut bad = vec![];
            let mut not_judged = 0usize;
            let mut judged = 0usize;
            for (k, mode) in positions {
                match run_one(Some(k), mode.clone()) {
                    Ok(o) => {
                        judged += 1;
                        if !o.bad.is_empty() {
                            let msg = format!("fault={} {} hit=[{}] :: {} (+{} more) :: trace: {}", k, mode, o.fired.join(", "), o.bad[0], o.bad.len() - 1, o.trace.join(" | "));
                            if std::env::var("VERIF_FAULTS_VERBOSE").is_ok() { eprintln!("faults: {}", msg); }
                            if bad.len() < 2 { bad.push(msg); }
                        }
                    }
                    Err(e) => { not_judged += 1; if std::env::var("VERIF_FAULTS_VERBOSE").is_ok() { eprintln!("faults: k={} mode={} not judged: {}", k, mode, e); } }
                }
            }
            if bad.is_empty() { println!("REPLAY holds oracle=faults fs_calls={} fault_runs={} not_judged={}", n, judged, not_judged); }
            else { println!("REPLAY violated oracle=faults {}", bad.join(" ;; ")); }
        }
        // public BloomFilterPolicy: every key a filter was created from may match (C14, first sentence)
        "bloom" => {
            use raindb::FilterPolicy;
            let mut bad = vec![];
            for (bits, keys) in &blooms {
                let policy = raindb::BloomFilterPolicy::new(*bits);
                let filter = policy.create_filter(keys);
                for k in keys {
                    match policy.key_may_match(k, &filter) {
                        Ok(true) => {}
                        other => bad.push(format!("bits_per_key={} keys={} key {} answered {:?}", bits, keys.len(), hex(k), other.map_err(|e| format!("{}", e)))),
                    }
                }
            }
            if bad.is_empty() { println!("REPLAY holds oracle=bloom filters={}", blooms.len()); }
            else { println!("REPLAY violated oracle=bloom {}", bad.join("; ")); }
        }
        // real Batch::try_from / Vec::from(&Batch) vs a reference codec of the documented layout
        // (fixed64 sequence, varint32 count, elements: op byte, length-prefixed key, [length-prefixed value])
        "batch_codec" => {
            fn varint(s: &[u8]) -> Option<(u64, usize)> {
                let mut v: u64 = 0;
                for (i, b) in s.iter().enumerate().take(10) {
                    v |= ((b & 0x7f) as u64) << (7 * i);
                    if b & 0x80 == 0 { return Some((v, i + 1)); }
                }
                None
            }
            fn lp(s: &[u8]) -> Option<(Vec<u8>, usize)> {
                let (n, c) = varint(s)?;
                if n > u32::MAX as u64 || c + n as usize > s.len() { return None; }
                Some((s[c..c + n as usize].to_vec(), c + n as usize))
            }
            fn reference(s: &[u8]) -> Option<(u64, Vec<(u8, Vec<u8>, Option<Vec<u8>>)>)> {
                if s.len() < 8 { return None; }
                let seq = u64::from_le_bytes(s[0..8].try_into().unwrap());
                let (n, c) = varint(&s[8..])?;
                if n > u32::MAX as u64 { return None; }
                let mut off = 8 + c;
                let mut els = vec![];
                for _ in 0..n {
                    if off >= s.len() || s[off] > 1 { return None; }
                    let op = s[off];
                    let (k, kc) = lp(&s[off + 1..])?;
                    off += 1 + kc;
                    let v = if op == 1 { let (v, vc) = lp(&s[off..])?; off += vc; Some(v) } else { None };
                    els.push((op, k, v));
                }
                Some((seq, els))
            }
            fn put_varint(out: &mut Vec<u8>, mut v: u64) { while v >= 0x80 { out.push((v as u8 & 0x7f) | 0x80); v >>= 7; } out.push(v as u8); }
            let mut bad = vec![];
            for b in &raw_bytes {
                let actual = api::batch_decode(b);
                let expected = reference(b);
                match (&actual, &expected) {
                    (Ok(a), Some(e)) if a == e => {}
                    (Err(_), None) => {}
                    _ => bad.push(format!("decode({}) returned {:?} expected {:?}", hex(b), actual.as_ref().map(|x| x.1.len()).map_err(|e| e.clone()), expected.as_ref().map(|x| x.1.len()))),
                }
            }
            for (seq, ops) in &encodes {
                let actual = api::batch_encode(*seq, ops);
                let mut e = seq.to_le_bytes().to_vec();
                put_varint(&mut e, ops.len() as u64);
                for (k, v) in ops {
                    e.push(if v.is_some() { 1 } else { 0 });
                    put_varint(&mut e, k.len() as u64); e.extend_from_slice(k);
                    if let Some(v) = v { put_varint(&mut e, v.len() as u64); e.extend_from_slice(v); }
                }
                if actual != e { bad.push(format!("encode(seq {}, {} ops) gave {} expected {}", seq, ops.len(), hex(&actual), hex(&e))); }
            }
            if bad.is_empty() { println!("REPLAY holds oracle=batch_codec cases={}", raw_bytes.len() + encodes.len()); }
            else { println!("REPLAY violated oracle=batch_codec {}", bad.join("; ")); }
        }
        // real TableBuilder + Table::get vs "newest entry of the user key at or below the bound"
        "table_get" => {
            let mut bad = vec![];
            for (u, s) in &lookups {
                let actual = api::table_get(&entries, block_size, u, *s);
                let mut expected = "notfound".to_string();
                // entries are sorted: user asc, seq desc -> first match is the newest visible
                for (eu, es, eop, ev) in &entries {
                    if eu == u && *es <= *s {
                        expected = if *eop == 0 { "deleted".to_string() } else { format!("value:{}", ev.iter().map(|b| format!("{:02x}", b)).collect::<String>()) };
                        break;
                    }
                }
                if actual != expected {
                    bad.push(format!("get({},{}) returned {} expected {}", hex(u), s, actual, expected));
                }
            }
            if bad.is_empty() {
                println!("REPLAY holds oracle=table_get lookups={}", lookups.len());
            } else {
                println!("REPLAY violated oracle=table_get block_size={} {}", block_size, bad.join("; "));
            }
        }
        other => {
            println!("REPLAY error unknown oracle {}", other);
            std::process::exit(3);
        }
    }
}
