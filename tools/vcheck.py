#!/usr/bin/env python3
"""Runner for the contract-based checks of raindb (see DESIGN.md section 2).

  bin/check <PROPERTY> --tier quick|thorough
  bin/check --unit U13            (debugging: run one unit, print outcome)
  bin/check --replay <file>
  bin/check --show-extraction U13

Exit codes: 0 = every obligation of the property discharged (known findings are printed),
            1 = VIOLATION (an obligation that is part of the committed baseline failed),
            2 = UNDECIDED (lost anchor, code left the verifier's reach, rlimit, vacuity anomaly).
"""
import argparse
import concurrent.futures
import hashlib
import json
import os
import re
import shutil
import subprocess
import sys
import time

HERE = os.path.dirname(os.path.abspath(__file__))
VERIF = os.path.dirname(HERE)
sys.path.insert(0, HERE)
import extract  # noqa: E402

REPO = os.environ.get("VERIF_REPO", "/repo")
BUILD = os.path.join(VERIF, "build")
VERUS = shutil.which("verus") or "/usr/local/bin/verus"


def load_json(p, default=None):
    try:
        with open(p) as f:
            return json.load(f)
    except FileNotFoundError:
        return default


CONFIG = load_json(os.path.join(VERIF, "units.json"))


# ------------------------------------------------------------------------------------------------
# running one unit
# ------------------------------------------------------------------------------------------------
LABEL_RE = re.compile(r"//\s*\[([A-Za-z0-9_.:-]+)\]")


class UnitResult:
    def __init__(self, unit):
        self.unit = unit
        self.status = None        # ok | failed | undecided
        self.reason = None
        self.failures = []        # dicts: function, label, obligation, message, rendered, props
        self.functions = []       # metadata from extractor
        self.items = []
        self.verified = 0
        self.errors = 0
        self.smt_queries = 0
        self.smt_ms = 0
        self.total_ms = 0
        self.func_times = []
        self.trusted = []
        self.labels = {}          # function -> [labels]
        self.probe = None
        self.dropped_optional = []
        self.cmd = None
        self.wall = 0.0
        self.raw = ""
        self.rlimit_retry = False
        self.items_sha = None
        self.instability_retries = []

    def to_dict(self):
        return {k: v for k, v in self.__dict__.items() if k != "raw"}


def run_verus(path, logdir=None, rlimit=None, multiple_errors=8, threads=4, smt_seed=None):
    cmd = [VERUS, os.path.basename(path), "--output-json", "--time", "--multiple-errors",
           str(multiple_errors), "--error-format=json", "--num-threads", str(threads)]
    if rlimit:
        cmd += ["--rlimit", str(rlimit)]
    if smt_seed is not None:
        cmd += ["--smt-option", "smt.random_seed=%d" % smt_seed, "--smt-option", "sat.random_seed=%d" % smt_seed]
    if logdir:
        shutil.rmtree(logdir, ignore_errors=True)
        cmd += ["--log", "smt", "--log-dir", logdir]
    t0 = time.time()
    p = subprocess.run(cmd, cwd=os.path.dirname(path), capture_output=True, text=True)
    wall = time.time() - t0
    js = None
    try:
        js = json.loads(p.stdout)
    except Exception:
        # stdout may contain other text before the JSON object
        m = re.search(r"\{.*\}\s*$", p.stdout, re.S)
        if m:
            try:
                js = json.loads(m.group(0))
            except Exception:
                js = None
    diags = []
    other = []
    for line in p.stderr.split("\n"):
        line = line.strip()
        if not line:
            continue
        if line.startswith("{"):
            try:
                diags.append(json.loads(line))
                continue
            except Exception:
                pass
        other.append(line)
    return {"cmd": " ".join(cmd), "rc": p.returncode, "json": js, "diags": diags,
            "stderr_other": other, "wall": wall}


VERIFICATION_MSGS = (
    "postcondition not satisfied", "precondition not satisfied", "precondition not met", "invariant not satisfied",
    "assertion failed", "possible arithmetic underflow/overflow", "possible division by zero",
    "decreases not satisfied", "loop invariant", "possible bit shift underflow/overflow",
    "recommendation not met", "unreachable", "cannot show", "possible", "might fail",
    "could not show termination", "failed to", "assertion failure", "unable to prove",
)


def is_verification_failure(d):
    msg = d.get("message", "")
    if d.get("level") != "error":
        return False
    if msg.startswith("aborting due to"):
        return False
    return any(m in msg for m in VERIFICATION_MSGS)


def is_rlimit(d):
    msg = d.get("message", "")
    return "rlimit" in msg or "Resource limit" in msg or "resource limit" in msg or "timed out" in msg


def scan_trusted(gen_lines, origin):
    """Mechanical scan for assumptions in the generated file."""
    out = []
    pat = re.compile(r"ASSUMED|external_body|assume_specification|\baxiom\s+fn\b|\badmit\s*\(|\bassume\s*\(|"
                     r"external_fn_specification|external_type_specification|\bexternal\b")
    for i, line in enumerate(gen_lines):
        code = line.split("//")[0]
        m = pat.search(code) or re.search(r"ASSUMED", line)
        if not m:
            continue
        ctx = line.strip()
        # attach the next signature line for attributes
        if ctx.startswith("#["):
            for k in range(i + 1, min(i + 4, len(gen_lines))):
                if gen_lines[k].strip():
                    ctx += " " + gen_lines[k].strip()
                    break
        o = origin[i] if i < len(origin) and origin[i] else ("?", None, None)
        out.append({"kind": m.group(0).strip("( "), "text": ctx[:200],
                    "from": "%s:%s" % (o[1], o[2]) if o[1] else o[0]})
    return out


def map_failure(d, meta, gen_lines, gen_name):
    """Map a Verus diagnostic to (function meta or None, label, where)."""
    spans = [s for s in d.get("spans", []) if s.get("file_name", "").endswith(gen_name)]
    prim = [s for s in spans if s.get("is_primary")]
    fn = None
    label = None
    # 1. label: any span line range that carries a [label] comment
    for s in prim + [x for x in spans if not x.get("is_primary") and x["line_end"] - x["line_start"] <= 1]:
        found = []
        for ln in range(s["line_start"], s["line_end"] + 1):
            if 1 <= ln <= len(gen_lines):
                m = LABEL_RE.search(gen_lines[ln - 1])
                if m and m.group(1) not in found:
                    found.append(m.group(1))
        if found:
            # a clause spanning several labelled conjuncts: Verus reports the whole clause, so it is
            # named after all of them (up to three) rather than after the first only
            label = "+".join(found[:3]) + ("+..." if len(found) > 3 else "")
            break
    # 2. function: containing extracted fn of any span
    for s in prim + spans:
        for f in meta["functions"]:
            if f["gen_lines"][0] <= s["line_start"] <= f["gen_lines"][1]:
                fn = f
                break
        if fn:
            break
    where = None
    if spans:
        s0 = (prim or spans)[0]
        o = meta["origin"][s0["line_start"] - 1] if s0["line_start"] - 1 < len(meta["origin"]) else None
        if o and o[1]:
            where = "%s:%s" % (o[1], o[2])
    ghost_fn = None
    if fn is None and spans:
        # hand-written proof fn / spec: find the enclosing `fn name` upwards
        ln = (prim or spans)[0]["line_start"]
        for k in range(ln - 1, -1, -1):
            m = re.match(r"\s*(?:pub\s+)?(?:broadcast\s+)?(?:proof|spec|open spec|closed spec)\s+fn\s+(\w+)", gen_lines[k])
            if m:
                ghost_fn = m.group(1)
                break
            m2 = re.match(r"\s*(?:pub\s+)?fn\s+(\w+)", gen_lines[k])
            if m2:
                ghost_fn = m2.group(1)
                break
    return fn, ghost_fn, label, where


def auto_label(d, gen_lines, gen_name):
    """Unlabelled clause: name it after its own text (first line of the failing clause)."""
    spans = [s for s in d.get("spans", []) if s.get("file_name", "").endswith(gen_name) and s.get("is_primary")]
    if not spans:
        return ""
    s0 = spans[0]
    ln = s0["line_start"]
    if not (1 <= ln <= len(gen_lines)):
        return ""
    line = gen_lines[ln - 1]
    txt = line[max(0, s0.get("column_start", 1) - 1):] if s0["line_start"] == s0["line_end"] else line
    if s0["line_start"] == s0["line_end"] and s0.get("column_end"):
        txt = line[max(0, s0["column_start"] - 1):s0["column_end"] - 1]
    txt = txt.split("//")[0]
    slug = re.sub(r"[^A-Za-z0-9_]+", "-", txt).strip("-")[:60].strip("-")
    return (":" + slug) if slug else ""


def msg_kind(msg):
    for k, v in (("index in bounds", "index"), ("postcondition", "post"), ("precondition", "pre"), ("invariant", "inv"),
                 ("assertion", "assert"), ("overflow", "overflow"), ("division", "div0"),
                 ("decreases", "decreases"), ("termination", "decreases"), ("bit shift", "shift")):
        if k in msg:
            return v
    return "other"


_PROBE_POOL = concurrent.futures.ThreadPoolExecutor(max_workers=8)


def run_probe(spec, repo, bdir, gen_name, rl):
    pout = os.path.join(bdir, gen_name.replace(".rs", "_probe.rs"))
    pmeta = extract.generate(spec, repo, pout, probe=True)
    failing_lines = set()
    missing = list(pmeta["probe_lines"])
    for me in (0, 6, 40):
        pr = run_verus(pout, rlimit=rl, multiple_errors=me)
        for d in pr["diags"]:
            if d.get("level") != "error":
                continue
            for s in d.get("spans", []):
                for ln in range(s["line_start"], s["line_end"] + 1):
                    failing_lines.add(ln)
        missing = [ln for ln in pmeta["probe_lines"] if ln not in failing_lines]
        if not missing:
            break
    with open(pout) as f:
        plines = f.read().split("\n")
    exempt = set()
    for ln in missing:
        for k in range(max(0, ln - 3), min(ln + 3, len(plines))):
            if "VACUITY-EXEMPT" in plines[k]:
                exempt.add(ln)
    missing = [ln for ln in missing if ln not in exempt]
    return {"probes": len(pmeta["probe_lines"]), "refuted": len(pmeta["probe_lines"]) - len(missing),
            "anomalies": [{"line": ln, "function": next((f["qualified"] for f in pmeta["functions"]
                           if f["gen_lines"][0] <= ln <= f["gen_lines"][1]), "?")} for ln in missing]}


def run_unit_cached(unit, repo=REPO, tier="quick", probe=True, rlimit=None, keep_log=True, workdir="_unit"):
    """Developer aid (tools/run_seeded.py): the property checks of ONE scratch tree share unit results
    through a cache directory; never set for the registered commands."""
    cdir = os.environ.get("VERIF_UNIT_CACHE")
    if not cdir:
        return run_unit(unit, repo, tier, probe, rlimit, keep_log, workdir)
    import fcntl, pickle
    os.makedirs(cdir, exist_ok=True)
    cfile = os.path.join(cdir, "%s.%s.pkl" % (unit, tier))
    with open(cfile + ".lock", "w") as lk:
        fcntl.flock(lk, fcntl.LOCK_EX)
        if os.path.exists(cfile):
            with open(cfile, "rb") as f:
                return pickle.load(f)
        res = run_unit(unit, repo, tier, probe, rlimit, keep_log, "_shared" + os.environ.get("VERIF_BUILD_TAG", "")[:7])
        with open(cfile, "wb") as f:
            pickle.dump(res, f)
        return res


def run_unit(unit, repo=REPO, tier="quick", probe=True, rlimit=None, keep_log=True, workdir="_unit", smt_seed=None):
    cfg = CONFIG["units"][unit]
    res = UnitResult(unit)
    t0 = time.time()
    spec = os.path.join(VERIF, cfg["spec"])
    gen_name = "%s.rs" % os.path.basename(cfg["spec"]).replace(".vspec", "")
    bdir = os.path.join(BUILD, workdir)
    os.makedirs(bdir, exist_ok=True)
    out = os.path.join(bdir, gen_name)
    try:
        meta = extract.generate(spec, repo, out, probe=False)
    except extract.LostAnchor as e:
        res.status, res.reason = "undecided", "lost-anchor: %s" % e
        res.wall = time.time() - t0
        return res
    res.functions = meta["functions"]
    res.items = meta["items"]
    res.items_sha = hashlib.sha256("".join(sorted(i.get("sha256", "") for i in meta["items"])).encode()).hexdigest()
    with open(out) as f:
        gen_lines = f.read().split("\n")
    res.trusted = scan_trusted(gen_lines, meta["origin"])
    # forbidden: admit/assume outside prelude
    for t in res.trusted:
        if t["kind"] in ("admit", "assume") and not str(t["from"]).startswith("prelude/"):
            res.status, res.reason = "undecided", "admit/assume outside prelude: %s" % t["text"]
            res.wall = time.time() - t0
            return res
    for f in meta["functions"]:
        labs = []
        for ln in range(f["gen_lines"][0], f["gen_lines"][1] + 1):
            m = LABEL_RE.search(gen_lines[ln - 1])
            if m:
                labs.append(m.group(1))
        res.labels[f["qualified"]] = labs
    logdir = os.path.join(bdir, "log", unit)
    rl = rlimit or cfg.get("rlimit")
    probe_future = None
    if probe and cfg.get("probe", True):
        # the vacuity probe is an independent Verus run: start it concurrently
        probe_future = _PROBE_POOL.submit(run_probe, spec, repo, bdir, gen_name, rl)
    r = run_verus(out, logdir=logdir, rlimit=rl, smt_seed=smt_seed)
    # Optional spec lines (`//?opt`): an invariant that names a local variable which a later edit
    # of the code removed is dropped (and recorded) instead of making the whole unit undecided.
    res.dropped_optional = []
    for _attempt in range(4):
        bad = set()
        for d in r["diags"]:
            if d.get("level") == "error" and (d.get("code") or {}).get("code") in ("E0425", "E0609"):
                for sp in d.get("spans", []):
                    ln = sp.get("line_start", 0)
                    if 1 <= ln <= len(gen_lines) and "//?opt" in gen_lines[ln - 1]:
                        bad.add(ln)
        if not bad:
            break
        for ln in bad:
            res.dropped_optional.append(gen_lines[ln - 1].strip())
            gen_lines[ln - 1] = "// (optional spec line dropped: names a variable that no longer exists)"
        with open(out, "w") as f:
            f.write("\n".join(gen_lines))
        r = run_verus(out, logdir=logdir, rlimit=rl)
    # A resource-limit hit decides nothing.  Retry once with a much larger limit: a failing proof
    # often wanders until the limit, and the retry turns "rlimit" into the named obligation that
    # fails (or into a pass); if the limit is hit again the unit stays UNDECIDED.
    if any(is_rlimit(d) for d in r["diags"] if d.get("level") == "error") and not rlimit:
        r2 = run_verus(out, logdir=logdir, rlimit=(rl or 10) * 8)
        if r2["json"] is not None:
            res.rlimit_retry = True
            r = r2
    res.cmd = r["cmd"]
    js = r["json"]
    if js is None:
        res.status, res.reason = "undecided", "verus produced no JSON: " + " | ".join(r["stderr_other"][:5])
        res.wall = time.time() - t0
        return res
    vr = js.get("verification-results", {})
    res.verified = vr.get("verified", 0)
    res.errors = vr.get("errors", 0)
    tm = js.get("times-ms", {})
    res.smt_ms = tm.get("smt", {}).get("total", 0)
    res.total_ms = tm.get("total", 0)
    for mt in tm.get("smt", {}).get("smt-run-module-times", []):
        for fb in mt.get("function-breakdown", []):
            res.func_times.append({"function": fb["function"], "mode": fb.get("mode:"),
                                   "ms": fb.get("time"), "rlimit": fb.get("rlimit"),
                                   "success": fb.get("success")})
    try:
        q = 0
        for fn_ in os.listdir(logdir):
            if fn_.endswith(".smt2"):
                with open(os.path.join(logdir, fn_)) as f:
                    q += sum(1 for line in f if line.strip().startswith("(check-sat"))
        res.smt_queries = q
    except FileNotFoundError:
        pass
    if not keep_log:
        shutil.rmtree(logdir, ignore_errors=True)
    errs = [d for d in r["diags"] if d.get("level") == "error" and not d.get("message", "").startswith("aborting")]
    if vr.get("encountered-vir-error") or (errs and not any(is_verification_failure(d) or is_rlimit(d) for d in errs)):
        # rustc / VIR error: the code left the verifier's reach
        first = errs[0] if errs else {"message": "?", "rendered": ""}
        res.status = "undecided"
        res.reason = "unsupported-or-compile-error: " + first.get("message", "")[:300]
        res.raw = first.get("rendered", "")
        res.wall = time.time() - t0
        return res
    if any(is_rlimit(d) for d in errs):
        res.status = "undecided"
        res.reason = "rlimit: " + "; ".join(d["message"][:120] for d in errs if is_rlimit(d))
        res.wall = time.time() - t0
        return res
    hard = [d for d in errs if not is_verification_failure(d)]
    if hard:
        res.status = "undecided"
        res.reason = "compile-error: " + hard[0].get("message", "")[:300]
        res.raw = hard[0].get("rendered", "")
        res.wall = time.time() - t0
        return res
    for d in errs:
        fn, ghost_fn, label, where = map_failure(d, meta, gen_lines, gen_name)
        fname = fn["qualified"] if fn else (ghost_fn or "?")
        lab = label or ("body:" + msg_kind(d["message"]) + auto_label(d, gen_lines, gen_name))
        res.failures.append({
            "function": fname,
            "extracted": fn is not None,
            "label": lab,
            "obligation": "%s::%s::%s" % (unit, fname.replace(" ", ""), lab),
            "message": d["message"],
            "where": where,
            "props": (fn["props"] if fn and fn["props"] else []),
            "rendered": d.get("rendered", ""),
        })
    if res.failures or res.errors:
        res.status = "failed"
        if not res.failures:
            res.status, res.reason = "undecided", "verus reports errors but no diagnostic could be mapped"
    else:
        if res.verified == 0:
            res.status, res.reason = "undecided", "zero obligations"
        else:
            res.status = "ok"
    # vacuity probe
    if probe_future is not None and res.status == "ok":
        try:
            res.probe = probe_future.result()
            if res.probe["anomalies"]:
                res.status = "undecided"
                res.reason = "vacuity-probe: assert(false) verified in " + ", ".join(
                    a["function"] for a in res.probe["anomalies"])
        except extract.LostAnchor as e:
            res.status, res.reason = "undecided", "lost-anchor(probe): %s" % e
    res.wall = time.time() - t0
    return res


# ------------------------------------------------------------------------------------------------
# property-level check
# ------------------------------------------------------------------------------------------------
def known_findings():
    kf = load_json(os.path.join(VERIF, "known_findings.json"), {"findings": []})
    return kf.get("findings", [])


def machinery_sha():
    """Hash of everything the generated files depend on besides /repo: specs, prelude, extractor."""
    h = hashlib.sha256()
    for d in ("specs", "specs/common", "prelude"):
        dd = os.path.join(VERIF, d)
        for fn_ in sorted(os.listdir(dd)):
            pth = os.path.join(dd, fn_)
            if os.path.isfile(pth):
                h.update(fn_.encode())
                with open(pth, "rb") as f:
                    h.update(f.read())
    for fn_ in ("tools/extract.py", "tools/rustlex.py"):
        with open(os.path.join(VERIF, fn_), "rb") as f:
            h.update(f.read())
    return h.hexdigest()


def baseline():
    return load_json(os.path.join(VERIF, "baseline_obligations.json"), {"functions": {}})


def write_replay(prop, failure, unit_res, counterexample=None, oracle=None):
    d = os.path.join(os.environ.get("VERIF_REPLAY_DIR", os.path.join(VERIF, "replays")), prop)
    os.makedirs(d, exist_ok=True)
    safe = re.sub(r"[^A-Za-z0-9_.-]+", "_", failure["obligation"])
    p = os.path.join(d, safe + ".json")
    fnmeta = next((f for f in unit_res.functions if f["qualified"] == failure["function"]), None)
    with open(p, "w") as f:
        json.dump({
            "property": prop,
            "obligation": failure["obligation"],
            "unit": unit_res.unit,
            "function": failure["function"],
            "source": {"file": fnmeta["file"], "lines": fnmeta["lines"], "sha256": fnmeta["sha256"]} if fnmeta else None,
            "where": failure.get("where"),
            "verifier": "verus",
            "verifier_cmd": unit_res.cmd,
            "verifier_message": failure["message"],
            "verifier_output": failure["rendered"],
            "counterexample": counterexample,
            "oracle": oracle,
        }, f, indent=1)
    return p


def unchanged_input(u, r, fl, base, bfull):
    """True iff the failing function's own text, the unit's extracted types/constants and the
    machinery (specs, prelude, extractor) are all identical to the committed baseline."""
    if bfull.get("machinery_sha") != machinery_sha():
        return False
    bu = bfull.get("units", {}).get(u)
    if not bu or bu.get("items_sha") != r.items_sha:
        return False
    key = "%s::%s" % (u, fl["function"].replace(" ", ""))
    want = base.get(key, {}).get("sha256")
    if not fl.get("extracted"):
        return True     # hand-written lemma / spec: its text is part of the machinery hash
    fnmeta = next((f for f in r.functions if f["qualified"] == fl["function"]), None)
    return bool(fnmeta) and want is not None and fnmeta.get("sha256") == want


def check_property(prop, tier, seed, jobs=4):
    pc = CONFIG["properties"].get(prop)
    if pc is None:
        print("property %s is not claimed (see MANIFEST.json not_applicable)" % prop)
        return 2
    t0 = time.time()
    units = list(pc["units"])
    if tier == "thorough":
        units += pc.get("units_thorough", [])
    results = {}
    with concurrent.futures.ThreadPoolExecutor(max_workers=jobs) as ex:
        futs = {ex.submit(run_unit_cached, u, REPO, tier, True, None, False, prop + os.environ.get("VERIF_BUILD_TAG", "")): u for u in units}
        for fu in concurrent.futures.as_completed(futs):
            results[futs[fu]] = fu.result()
    bfull = baseline()
    base = bfull["functions"]
    unstable = {}
    kfs = [k for k in known_findings() if k.get("status") == "known"]
    violations = []
    known_hits = []
    undecided = []
    for u in units:
        r = results[u]
        if r.status == "undecided":
            undecided.append((u, r.reason))
            continue
        for fl in r.failures:
            tags = fl["props"]
            if tags and prop not in tags:
                continue
            key = "%s::%s" % (u, fl["function"].replace(" ", ""))
            k = next((k for k in kfs if k["obligation"] == fl["obligation"] and k.get("property") in (prop, None)
                      or (k["obligation"] == fl["obligation"] and prop in k.get("properties", []))), None)
            if k is not None:
                known_hits.append((fl, k))
                continue
            if key not in base:
                undecided.append((u, "failure in %s which is not in the committed baseline of discharged obligations: %s"
                                  % (key, fl["message"])))
                continue
            if unchanged_input(u, r, fl, base, bfull):
                unstable.setdefault(u, []).append(fl)
                continue
            violations.append((r, fl))
    # Stability rule.  Verification is modular: an obligation of function f depends on f's own text,
    # on the types/constants it uses and on the spec files - not on the bodies of other functions.
    # If all of these are byte-identical to the committed baseline (on which f verified), a failure
    # of f cannot be caused by the change under test; it is a solver instability triggered by
    # unrelated text in the same file.  Such failures are retried with other solver seeds; if they
    # persist they are reported as UNDECIDED, never as a violation.
    for u, fls in unstable.items():
        cured = False
        for sd in (1, 2):
            r2 = run_unit(u, REPO, tier, False, None, False, prop + os.environ.get("VERIF_BUILD_TAG", "") + "_retry", smt_seed=sd)
            still = [f2 for f2 in r2.failures if any(f2["function"] == f1["function"] for f1 in fls)]
            results[u].instability_retries.append({"seed": sd, "status": r2.status, "still_failing": [f2["obligation"] for f2 in still]})
            if r2.status != "undecided" and not still:
                cured = True
                break
        if not cured:
            undecided.append((u, "solver instability: %s failed although the function, its types and the spec files are identical to the baseline on which it verified (retried with 2 other seeds)"
                              % ", ".join(sorted(set(f1["obligation"] for f1 in fls)))))
    # Kani parts (thorough, or quick when cheap) are attached by run_kani
    kani_results = []
    if pc.get("kani") and (tier == "thorough" or pc.get("kani_quick")):
        import run_kani
        names = pc["kani"] if tier == "thorough" else pc.get("kani_quick", [])
        kani_results = run_kani.run_harnesses(names, REPO)
        for kr in kani_results:
            if kr["status"] == "failed":
                k = next((k for k in kfs if k["obligation"] == kr["obligation"]), None)
                if k is not None:
                    known_hits.append(({"obligation": kr["obligation"], "message": "kani"}, k))
                else:
                    violations.append((None, {"obligation": kr["obligation"], "function": kr["harness"],
                                              "message": "kani harness failed", "rendered": kr.get("output", "")[-4000:],
                                              "label": kr["harness"], "props": [prop], "kani": kr}))
            elif kr["status"] == "undecided":
                undecided.append((kr["harness"], kr.get("reason", "kani undecided")))
    # thorough: the witnesses of the FIXED findings of this property are replayed on the real code;
    # a witness that fails again is a violation (a fixed entry suppresses nothing)
    replayed = []
    if tier == "thorough":
        import replay as replay_mod
        for k in known_findings():
            if k.get("status") == "fixed" and (k.get("property") == prop or prop in k.get("properties", [])):
                try:
                    cex, oracle = replay_mod.search_counterexample(k["obligation"], REPO, seed)
                except Exception as e:
                    replayed.append({"obligation": k["obligation"], "result": "replay unavailable: %s" % str(e)[:200]})
                    continue
                if cex:
                    violations.append((None, {"obligation": k["obligation"], "function": "replay", "label": "replay",
                                              "message": "witness of a fixed finding fails again on the real code",
                                              "rendered": cex.get("observed", ""), "props": [prop],
                                              "kani": {"harness": "replay", "counterexample": cex}}))
                    replayed.append({"obligation": k["obligation"], "result": "FAILS AGAIN", "observed": cex.get("observed")})
                else:
                    replayed.append({"obligation": k["obligation"], "result": "holds on the real code", "detail": oracle})
    # Bounded stand-ins (labelled bounded, never counted as proved): the executable oracles of
    # tools/replay.py are run on the real code for the parts of the property that rest on ASSUMED
    # contracts of raindb code the verifier does not ingest (MergingIterator, the skip-list memtable,
    # Version::get's loop, the table cache ...).  A failing input is a violation with a concrete
    # replay; a pass proves nothing and is reported as "bounded".
    bounded = []
    for famname in pc.get("bounded", []):
        try:
            import replay as replay_mod
            # quick: the inputs of one seed; thorough: 16 seeds (the pseudo-random part of a family differs per seed)
            seeds = [seed] if tier == "quick" else list(range(seed, seed + 16))
            br = None
            total = 0
            for sd in seeds:
                b1 = replay_mod.run_family(famname, REPO, sd)
                total += b1["inputs"]
                br = b1
                if b1["counterexample"]:
                    break
            br = dict(br)
            br["inputs"] = total
            br["seeds"] = seeds
        except Exception as e:
            bounded.append({"family": famname, "result": "unavailable: %s" % str(e)[:300]})
            continue
        bounded.append(dict((k, v) for k, v in br.items() if k != "counterexample"))
        # inputs whose only disagreement is of a kind listed as a KNOWN finding of this family
        for h in br.get("known_hits", []):
            kk = next((k for k in known_findings() if k.get("status") == "known" and k.get("obligation") == "BOUNDED::%s" % famname and k.get("kind") == h["kind"]), None)
            if kk is not None and not any(f0["obligation"] == "BOUNDED::%s" % famname and k0.get("kind") == kk.get("kind") for f0, k0 in known_hits):
                known_hits.append(({"obligation": "BOUNDED::%s" % famname, "message": h["observed"]}, kk))
        if br["counterexample"]:
            cex = br["counterexample"]
            violations.append((None, {"obligation": "BOUNDED::%s" % famname, "function": "bounded stand-in", "label": famname,
                                      "message": "bounded stand-in: the real code disagrees with the reference model on a concrete input",
                                      "rendered": cex.get("observed", ""), "props": [prop],
                                      "kani": {"harness": famname, "counterexample": cex}}))
    wall = time.time() - t0
    pc = dict(pc)
    pc["_bounded"] = bounded
    pc["_replayed_fixed"] = replayed
    write_evidence(prop, tier, seed, units, results, violations, known_hits, undecided, kani_results, wall, pc)
    for fl, k in known_hits:
        print("KNOWN-FINDING: property=%s %s %s" % (prop, fl["obligation"], k.get("witness", "")))
    rc = 0
    if violations:
        for r, fl in violations:
            cex, oracle = None, None
            if r is not None:
                try:
                    import replay as replay_mod
                    cex, oracle = replay_mod.search_counterexample(fl["obligation"], REPO, seed)
                except Exception as e:  # search is best effort; never changes the verdict
                    cex, oracle = None, "counterexample search unavailable: %s" % e
                p = write_replay(prop, fl, r, cex, oracle)
            else:
                d = os.path.join(os.environ.get("VERIF_REPLAY_DIR", os.path.join(VERIF, "replays")), prop)
                os.makedirs(d, exist_ok=True)
                p = os.path.join(d, re.sub(r"[^A-Za-z0-9_.-]+", "_", fl["obligation"]) + ".json")
                with open(p, "w") as f:
                    json.dump({"property": prop, "obligation": fl["obligation"], "verifier": "kani",
                               "verifier_output": fl["rendered"], "counterexample": fl["kani"].get("counterexample"),
                               "harness": fl["kani"]["harness"]}, f, indent=1)
                cex = fl["kani"].get("counterexample")
            print("OBLIGATION-FAILED %s : %s" % (fl["obligation"], fl["message"]))
            print("VIOLATION property=%s replay=%s%s" % (prop, p, "" if cex else " no-failing-input-found"))
        rc = 1
    elif undecided:
        for u, why in undecided:
            print("UNDECIDED property=%s unit=%s reason=%s" % (prop, u, why))
        rc = 2
    else:
        tot_v = sum(results[u].verified for u in units)
        print("OK property=%s tier=%s units=%s obligations=%d wall=%.1fs" % (prop, tier, ",".join(units), tot_v, wall))
    return rc


def write_evidence(prop, tier, seed, units, results, violations, known_hits, undecided, kani_results, wall, pc):
    # A function whose ONLY failing clauses are recorded known findings (known_findings.json, status
    # known) is not part of the proof claim: it is itemised under `known_finding_functions` and left
    # out of `obligations`, so that obligations == discharged says "everything that is claimed was
    # proved" and the findings stay visible next to it.
    known_obls = set(k["obligation"] for k in known_findings() if k.get("status") == "known" and not k["obligation"].startswith("BOUNDED::"))
    failed_by_fn = {}
    for u in units:
        for fl in results[u].failures:
            failed_by_fn.setdefault((u, fl["function"]), []).append(fl["obligation"])
    known_fns = sorted((u, fn) for (u, fn), obls in failed_by_fn.items() if obls and all(o in known_obls for o in obls))
    total_checked = sum(results[u].verified + results[u].errors for u in units)
    obligations = total_checked - len(known_fns)
    discharged = sum(results[u].verified for u in units)
    trusted = []
    seen = set()
    for u in units:
        for t in results[u].trusted:
            key = (t["kind"], t["text"])
            if key in seen:
                continue
            seen.add(key)
            trusted.append("%s [%s] %s" % (t["from"], t["kind"], t["text"]))
    fns = []
    samples = []
    for u in units:
        r = results[u]
        for f in r.functions:
            fns.append({"unit": u, "function": f["qualified"], "file": f["file"], "lines": f["lines"],
                        "sha256": f["sha256"], "rewrite_rules": f["rules"], "props": f["props"],
                        "labels": r.labels.get(f["qualified"], [])})
        for ft in r.func_times:
            if ft.get("mode") in ("exec", "proof") and len(samples) < 400:
                samples.append({"unit": u, "obligation": ft["function"], "mode": ft["mode"],
                                "result": "discharged" if ft.get("success", True) else "failed",
                                "ms": ft["ms"], "rlimit": ft["rlimit"]})
    ev = {
        "property_id": prop,
        "tier": tier,
        "seed": seed,
        "level": "proof",
        "coverage": {
            "obligations": obligations,
            "discharged": discharged,
            "checker_cmd": "; ".join(sorted(set(results[u].cmd or "" for u in units))),
            "trusted_base": trusted,
            "samples": samples,
            "obligations_checked_including_known_findings": total_checked,
            "known_finding_functions": [{"unit": u, "function": fn, "failing_clauses": failed_by_fn[(u, fn)]} for u, fn in known_fns],
            "explanation": "obligations = functions/loops/lemmas Verus checked (verified+errors per unit) minus the functions whose only failing clauses are recorded known findings (itemised in known_finding_functions; obligations_checked_including_known_findings is the total); "
                           "smt_queries = number of (check-sat) in the SMT log; each unit is re-extracted from "
                           "/repo's working tree on this run.",
            "smt_queries": sum(results[u].smt_queries for u in units),
            "solver_ms": sum(results[u].smt_ms for u in units),
            "verus_total_ms": sum(results[u].total_ms for u in units),
            "units": {u: {"status": results[u].status, "reason": results[u].reason,
                          "verified": results[u].verified, "errors": results[u].errors,
                          "smt_queries": results[u].smt_queries, "solver_ms": results[u].smt_ms,
                          "wall_s": round(results[u].wall, 2), "vacuity_probe": results[u].probe,
                          "extracted_items": results[u].items} for u in units},
            "functions_under_contract": fns,
            "backends": {"verus": {"version": "0.2026.09.13", "solver": "z3 (bundled)"},
                         "kani": kani_results},
            "failed_obligations": [fl["obligation"] for _r, fl in violations],
            "known_findings": [{"obligation": fl["obligation"], "witness": k.get("witness")} for fl, k in known_hits],
            "undecided": [{"unit": u, "reason": why} for u, why in undecided],
            "undecided_part_of_property": pc.get("undecided", ""),
            "replayed_fixed_findings": pc.get("_replayed_fixed", []),
            "bounded_standins": [k for k in kani_results if k.get("kind") == "bounded"] + pc.get("_bounded", []),
            "dependency_contracts": [k for k in kani_results if k.get("kind") == "complete"],
        },
        "assumptions": pc.get("assumptions", []) + [
            "machine integers: all exec arithmetic is checked by Verus at machine width; mathematical "
            "integers appear only in ghost code; range preconditions are listed in each function's contract",
            "Verus 0.2026.09.13, its bundled Z3, rustc 1.98.1 are trusted",
            "the extraction rewrite rules R1..R10 of DESIGN.md 2.1 (counts per function in functions_under_contract)",
        ],
        "wall_s": round(wall, 2),
        "violations": len(violations),
    }
    evdir = os.environ.get("VERIF_EVIDENCE_DIR", os.path.join(VERIF, "evidence"))
    os.makedirs(evdir, exist_ok=True)
    with open(os.path.join(evdir, "%s.json" % prop), "w") as f:
        json.dump(ev, f, indent=1)


def main():
    ap = argparse.ArgumentParser()
    ap.add_argument("property", nargs="?")
    ap.add_argument("--tier", default=os.environ.get("VERIF_TIER", "quick"))
    ap.add_argument("--unit")
    ap.add_argument("--replay")
    ap.add_argument("--show-extraction")
    ap.add_argument("--update-baseline", action="store_true")
    ap.add_argument("--jobs", type=int, default=8)
    a = ap.parse_args()
    seed = int(os.environ.get("VERIF_SEED", "0") or 0)
    os.makedirs(BUILD, exist_ok=True)
    if a.update_baseline:
        return update_baseline()
    if a.replay:
        import replay as replay_mod
        return replay_mod.replay_file(a.replay, REPO)
    if a.show_extraction:
        cfg = CONFIG["units"][a.show_extraction]
        out = os.path.join(BUILD, "_show", os.path.basename(cfg["spec"]).replace(".vspec", ".rs"))
        meta = extract.generate(os.path.join(VERIF, cfg["spec"]), REPO, out)
        with open(out) as f:
            lines = f.read().split("\n")
        for i, l in enumerate(lines):
            o = meta["origin"][i] if i < len(meta["origin"]) else None
            tag = "%s:%s" % (o[1], o[2]) if o and o[1] else (o[0] if o else "")
            print("%-45s| %s" % (tag[-45:], l))
        return 0
    if a.unit:
        # (developer aid: VERIF_NO_PROBE=1 skips the vacuity probe of a single-unit run; never set for the registered commands)
        r = run_unit(a.unit, REPO, a.tier, probe=not os.environ.get("VERIF_NO_PROBE"), workdir="_unit" + os.environ.get("VERIF_BUILD_TAG", ""))
        print("unit=%s status=%s reason=%s verified=%d errors=%d queries=%d smt_ms=%d wall=%.1f probe=%s"
              % (r.unit, r.status, r.reason, r.verified, r.errors, r.smt_queries, r.smt_ms, r.wall, r.probe))
        for fl in r.failures:
            print("  FAILED", fl["obligation"], "|", fl["message"], "|", fl["where"])
            print("    " + fl["rendered"].replace("\n", "\n    "))
        if r.raw:
            print(r.raw)
        return 0 if r.status == "ok" else (1 if r.status == "failed" else 2)
    if not a.property:
        ap.error("property id required")
    return check_property(a.property, a.tier, seed, a.jobs)


def update_baseline():
    """Record which functions verify on the current tree (run on the pinned tree only)."""
    fnmap = {}
    unitmap = {}
    for u in CONFIG["units"]:
        r = run_unit(u, REPO, "quick", probe=False, workdir="_baseline")
        kobl = set(k["obligation"] for k in known_findings() if k.get("status") == "known")
        failed = set(fl["function"].replace(" ", "") for fl in r.failures if fl["obligation"] not in kobl)
        print(u, r.status, r.reason or "", "verified=%d" % r.verified)
        if r.status == "undecided":
            continue
        names = [f["qualified"].replace(" ", "") for f in r.functions]
        # ghost lemmas
        gen = os.path.join(BUILD, "_baseline", os.path.basename(CONFIG["units"][u]["spec"]).replace(".vspec", ".rs"))
        with open(gen) as f:
            for line in f:
                m = re.match(r"\s*(?:pub\s+)?(?:broadcast\s+)?proof\s+fn\s+(\w+)", line)
                if m:
                    names.append(m.group(1))
        shas = dict((f["qualified"].replace(" ", ""), f.get("sha256")) for f in r.functions)
        for n in names:
            if n not in failed:
                fnmap["%s::%s" % (u, n)] = {"labels": r.labels.get(n, []), "sha256": shas.get(n)}
        unitmap[u] = {"items_sha": r.items_sha}
    with open(os.path.join(VERIF, "baseline_obligations.json"), "w") as f:
        json.dump({"functions": fnmap, "units": unitmap, "machinery_sha": machinery_sha()}, f, indent=1, sort_keys=True)
    print("baseline: %d functions" % len(fnmap))
    return 0


if __name__ == "__main__":
    sys.exit(main())
