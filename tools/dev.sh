#!/bin/sh
# developer aid: extract one unit into build/_dev and run verus on it, compact output
U="$1"; shift
SPEC=$(ls /verif/specs/${U}_*.vspec | head -1)
python3 /verif/tools/extract.py "$SPEC" --repo ${VERIF_REPO:-/repo} --out /verif/build/_dev/$U.rs > /verif/build/_dev/$U.meta.json || { cat /verif/build/_dev/$U.meta.json | head; exit 2; }
cd /verif/build/_dev && verus $U.rs --triggers-mode silent --rlimit ${RLIMIT:-20} "$@" 2>&1 | grep -v "^warning\|^\s*$\|^note: " | head -${LINES_MAX:-80}
