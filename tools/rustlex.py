"""Minimal Rust tokenizer + bracket matcher + item locator used by extract.py.

It is a *lexical* tool: it never interprets Rust semantics.  It splits a source
text into tokens with byte offsets, matches brackets, and finds items (fn,
struct, enum, const, impl, trait, mod ...) by walking item boundaries.
"""
import re

WS, COMMENT, STR, CHAR, LIFETIME, IDENT, NUM, PUNCT = (
    "ws", "comment", "str", "char", "lifetime", "ident", "num", "punct")


class Tok:
    __slots__ = ("kind", "text", "start", "end")

    def __init__(self, kind, text, start, end):
        self.kind, self.text, self.start, self.end = kind, text, start, end

    def __repr__(self):
        return "Tok(%s,%r,%d)" % (self.kind, self.text, self.start)


_ident_re = re.compile(r"[A-Za-z_][A-Za-z0-9_]*")
_num_re = re.compile(r"[0-9][0-9A-Za-z_]*(\.[0-9][0-9A-Za-z_]*)?")
_rawstr_re = re.compile(r"b?r(#*)\"")


class LexError(Exception):
    pass


def tokenize(src):
    toks = []
    i, n = 0, len(src)
    while i < n:
        c = src[i]
        if c.isspace():
            j = i + 1
            while j < n and src[j].isspace():
                j += 1
            toks.append(Tok(WS, src[i:j], i, j))
            i = j
            continue
        if src.startswith("//", i):
            j = src.find("\n", i)
            if j < 0:
                j = n
            toks.append(Tok(COMMENT, src[i:j], i, j))
            i = j
            continue
        if src.startswith("/*", i):
            depth, j = 1, i + 2
            while j < n and depth:
                if src.startswith("/*", j):
                    depth += 1
                    j += 2
                elif src.startswith("*/", j):
                    depth -= 1
                    j += 2
                else:
                    j += 1
            if depth:
                raise LexError("unterminated block comment at %d" % i)
            toks.append(Tok(COMMENT, src[i:j], i, j))
            i = j
            continue
        m = _rawstr_re.match(src, i)
        if m:
            hashes = m.group(1)
            close = '"' + hashes
            j = src.find(close, m.end())
            if j < 0:
                raise LexError("unterminated raw string at %d" % i)
            j += len(close)
            toks.append(Tok(STR, src[i:j], i, j))
            i = j
            continue
        if c == '"' or (c == "b" and i + 1 < n and src[i + 1] == '"'):
            j = i + (2 if c == "b" else 1)
            while j < n and src[j] != '"':
                if src[j] == "\\":
                    j += 2
                else:
                    j += 1
            if j >= n:
                raise LexError("unterminated string at %d" % i)
            j += 1
            toks.append(Tok(STR, src[i:j], i, j))
            i = j
            continue
        if c == "'" or (c == "b" and i + 1 < n and src[i + 1] == "'"):
            k = i + (1 if c == "b" else 0)
            # char literal or lifetime
            if k + 1 < n and src[k + 1] == "\\":
                j = k + 2
                while j < n and src[j] != "'":
                    j += 1
                j += 1
                toks.append(Tok(CHAR, src[i:j], i, j))
                i = j
                continue
            if k + 2 < n and src[k + 2] == "'":
                j = k + 3
                toks.append(Tok(CHAR, src[i:j], i, j))
                i = j
                continue
            if c == "'":
                m = _ident_re.match(src, i + 1)
                if m:
                    toks.append(Tok(LIFETIME, src[i:m.end()], i, m.end()))
                    i = m.end()
                    continue
            # multi-byte char literal like 'é'
            j = src.find("'", k + 1)
            if j < 0 or j - k > 6:
                raise LexError("bad char literal at %d" % i)
            j += 1
            toks.append(Tok(CHAR, src[i:j], i, j))
            i = j
            continue
        m = _ident_re.match(src, i)
        if m:
            toks.append(Tok(IDENT, m.group(0), i, m.end()))
            i = m.end()
            continue
        m = _num_re.match(src, i)
        if m:
            # do not swallow `1..2` or `1.method()`
            text = m.group(0)
            if m.group(1) is None and src.startswith("..", m.end()):
                pass
            toks.append(Tok(NUM, text, i, m.end()))
            i = m.end()
            continue
        toks.append(Tok(PUNCT, c, i, i + 1))
        i += 1
    return toks


OPEN = {"(": ")", "[": "]", "{": "}"}
CLOSE = {v: k for k, v in OPEN.items()}


class Source:
    """Tokenized source with significant-token view and bracket matching."""

    def __init__(self, text, path="<mem>"):
        self.text = text
        self.path = path
        self.all = tokenize(text)
        self.sig = [t for t in self.all if t.kind not in (WS, COMMENT)]
        self.match = {}
        stack = []
        for idx, t in enumerate(self.sig):
            if t.kind == PUNCT and t.text in OPEN:
                stack.append(idx)
            elif t.kind == PUNCT and t.text in CLOSE:
                if not stack:
                    raise LexError("%s: unbalanced %s at byte %d" % (path, t.text, t.start))
                o = stack.pop()
                if OPEN[self.sig[o].text] != t.text:
                    raise LexError("%s: mismatched bracket at byte %d" % (path, t.start))
                self.match[o] = idx
                self.match[idx] = o
        if stack:
            raise LexError("%s: unclosed bracket at byte %d" % (path, self.sig[stack[-1]].start))
        self._line_starts = [0]
        for m in re.finditer("\n", text):
            self._line_starts.append(m.end())

    def line_of(self, byte):
        import bisect
        return bisect.bisect_right(self._line_starts, byte)

    def is_p(self, i, ch):
        return 0 <= i < len(self.sig) and self.sig[i].kind == PUNCT and self.sig[i].text == ch

    def is_id(self, i, name=None):
        if not (0 <= i < len(self.sig)) or self.sig[i].kind != IDENT:
            return False
        return name is None or self.sig[i].text == name

    def skip_group(self, i):
        """If sig[i] opens a bracket, return index after its close; else i+1."""
        if i in self.match and self.sig[i].text in OPEN:
            return self.match[i] + 1
        return i + 1


ITEM_KW = {"fn", "struct", "enum", "impl", "trait", "mod", "use", "const", "static", "type",
           "union", "macro_rules", "extern"}
QUALS = {"pub", "async", "unsafe", "default", "const", "extern"}


class Item:
    def __init__(self):
        self.kind = None
        self.name = None
        self.header = None      # normalized header (impl / trait)
        self.first = None       # index (sig) of first token incl. attributes
        self.kw = None          # index of keyword token
        self.vis = None         # (first, last+1) sig range of visibility or None
        self.start_nonattr = None  # index of first token after attributes
        self.body_open = None   # index of '{' or None
        self.last = None        # index of last token (inclusive)

    def __repr__(self):
        return "Item(%s %s %s)" % (self.kind, self.name, self.header)


def norm(tokens):
    return " ".join(t.text for t in tokens)


def parse_items(src, lo, hi):
    """Parse the item sequence in sig[lo:hi]. Returns list of Item."""
    s = src.sig
    items = []
    i = lo
    while i < hi:
        it = Item()
        it.first = i
        # attributes
        while src.is_p(i, "#"):
            j = i + 1
            if src.is_p(j, "!"):
                j += 1
            if not src.is_p(j, "["):
                break
            i = src.match[j] + 1
        if i >= hi:
            break
        it.start_nonattr = i
        # visibility
        if src.is_id(i, "pub"):
            v0 = i
            i += 1
            if src.is_p(i, "(") :
                i = src.match[i] + 1
            it.vis = (v0, i)
        # qualifiers
        k = i
        while k < hi and src.is_id(k):
            w = s[k].text
            nxt = s[k + 1].text if k + 1 < hi and s[k + 1].kind == IDENT else None
            if w in ("async", "unsafe") and nxt is not None:
                k += 1
            elif w == "const" and nxt in ("fn", "unsafe", "async", "extern"):
                k += 1
            elif w == "extern" and k + 1 < hi and s[k + 1].kind == STR and \
                    k + 2 < hi and src.is_id(k + 2, "fn"):
                k += 2
            else:
                break
        if k >= hi:
            break
        kw = s[k]
        it.kw = k
        if kw.kind == IDENT and kw.text in ITEM_KW:
            it.kind = kw.text
        elif kw.kind == IDENT:
            it.kind = "macro"  # e.g. lazy_static! { } / some_macro!(...);
        else:
            raise LexError("%s: cannot parse item at byte %d (%r)" % (src.path, kw.start, kw.text))
        # find end
        j = k + 1
        if it.kind in ("fn", "struct", "enum", "trait", "mod", "union", "const", "static", "type"):
            if src.is_id(j) or (it.kind == "const" and src.is_id(j, "_")):
                it.name = s[j].text
        body = None
        while j < hi:
            t = s[j]
            if t.kind == PUNCT and t.text == ";":
                break
            if it.kind == "use":
                j = src.skip_group(j)
                continue
            if t.kind == PUNCT and t.text == "{":
                body = j
                j = src.match[j]
                break
            if t.kind == PUNCT and t.text in ("(", "["):
                j = src.match[j] + 1
                continue
            if it.kind in ("const", "static", "type", "use") and t.kind == PUNCT and t.text == "=":
                # expression may contain braces; scan to ';' at depth 0
                j += 1
                while j < hi and not src.is_p(j, ";"):
                    j = src.skip_group(j)
                break
            j += 1
        if j >= hi:
            raise LexError("%s: unterminated item at byte %d" % (src.path, kw.start))
        it.body_open = body
        it.last = j
        if it.kind == "macro" and body is None:
            pass
        if body is not None and it.kind in ("struct", "macro"):
            # struct S { } has no trailing ';'. macro!{} may have one.
            pass
        if it.kind in ("impl", "trait"):
            hdr_end = body if body is not None else j
            it.header = norm(s[k:hdr_end])
        items.append(it)
        i = j + 1
        # optional trailing ';' after macro!{...};
        if it.kind == "macro" and src.is_p(i, ";"):
            it.last = i
            i += 1
    return items


def find_item(src, path_parts, first_ok=False):
    """path_parts like ['impl LogWriter', 'fn append'] or ['fn foo'] or ['struct X'].
    Returns (Item, [enclosing Items]).  Several `impl X` blocks with the same header are all
    searched; an ambiguous final match is an error unless first_ok."""
    def rec(lo, hi, parts, chain):
        items = parse_items(src, lo, hi)
        part = parts[0]
        want_kind, _, rest = part.partition(" ")
        if re.match(r"impl\b", part):
            want_kind = "impl"
        found = []
        for it in items:
            if it.kind != want_kind:
                continue
            if want_kind in ("impl", "trait") and it.kind == "impl":
                if _norm_hdr(it.header) == _norm_hdr(part):
                    found.append(it)
            elif it.name == rest.strip():
                found.append(it)
        if len(parts) == 1:
            return [(it, chain) for it in found]
        res = []
        for it in found:
            if it.body_open is None:
                continue
            res += rec(it.body_open + 1, src.match[it.body_open], parts[1:], chain + [it])
        return res
    res = rec(0, len(src.sig), list(path_parts), [])
    if not res:
        return None, []
    if len(res) > 1:
        # items duplicated under `#[cfg(feature = "x")]` / `#[cfg(not(feature = "x"))]`: keep the
        # definition that is active in the default build (no optional feature switched on)
        def attrs(it):
            return "".join(t.text for t in src.sig[it.first:it.start_nonattr]) if it.start_nonattr is not None else ""
        keep = [r for r in res if not re.search(r"#\[cfg\(feature=", attrs(r[0]).replace(" ", ""))]
        if len(keep) >= 1:
            res = keep
    if len(res) > 1 and not first_ok:
        raise LexError("%s: ambiguous item %r (%d matches)" % (src.path, " :: ".join(path_parts), len(res)))
    return res[0]


def _norm_hdr(h):
    return re.sub(r"\s+", "", h)
