#!/usr/bin/env python3
"""Kani side of the machinery (DESIGN.md 2.4).  Never the deciding step of a `proof` claim.

A scratch copy of /repo's working tree is made under /var/tmp, the harness modules of
/verif/kani are appended to files of the COPY (`#[cfg(kani)] #[path=...] mod ...;`), and
`cargo kani` runs there.  The copy (with its target directory) is removed before returning.
"""
import json, os, re, shutil, subprocess, sys, time

HERE = os.path.dirname(os.path.abspath(__file__))
VERIF = os.path.dirname(HERE)

# harness name -> (module file, file of the copy it is appended to, kind, bound text, what it discharges)
HARNESSES = {
    "fixed_u16_is_le_and_roundtrips": ("intenc.rs", "src/lib.rs", "complete", "full domain, loop-free", "A-intenc: FixedInt for u16"),
    "fixed_u32_is_le_and_roundtrips": ("intenc.rs", "src/lib.rs", "complete", "full domain, loop-free", "A-intenc: FixedInt for u32"),
    "fixed_u64_is_le_and_roundtrips": ("intenc.rs", "src/lib.rs", "complete", "full domain, loop-free", "A-intenc: FixedInt for u64"),
    "varint_u64_roundtrips": ("intenc.rs", "src/lib.rs", "complete", "full domain; loops bounded by operand width (unwind 12, unwinding assertions on)", "A-intenc: VarInt for u64"),
    "crc_unmask_inverts_mask": ("intenc.rs", "src/lib.rs", "complete", "full domain, loop-free", "U01 cross-check"),
    "bloom_policy_new_establishes_probe_count_range": ("bloom.rs", "src/filter_policy.rs", "complete", "full usize domain, loop-free (floating point in CBMC)", "bloom_wf: 1 <= num_hash_functions <= 30 after BloomFilterPolicy::new"),
}


def run_harnesses(names, repo, timeout=1800):
    work = "/var/tmp/raindb-verif-kani.%d" % os.getpid()
    shutil.rmtree(work, ignore_errors=True)
    results = []
    try:
        shutil.copytree(repo, work, ignore=shutil.ignore_patterns("target", ".git"), symlinks=True)
        injected = set()
        for n in names:
            mod, into, _k, _b, _w = HARNESSES[n]
            if (mod, into) in injected:
                continue
            injected.add((mod, into))
            with open(os.path.join(work, into), "a") as f:
                f.write('\n#[cfg(kani)]\n#[path = "%s/kani/%s"]\nmod verif_kani_%s;\n' % (VERIF, mod, mod.replace(".rs", "")))
        env = dict(os.environ)
        env["CARGO_NET_OFFLINE"] = "true"
        for n in names:
            mod, into, kind, bound, what = HARNESSES[n]
            t0 = time.time()
            cmd = ["cargo", "kani", "-Z", "function-contracts", "-Z", "stubbing", "--harness", n]
            try:
                p = subprocess.run(cmd, cwd=work, env=env, capture_output=True, text=True, timeout=timeout)
                out = p.stdout + p.stderr
                if "VERIFICATION:- SUCCESSFUL" in out:
                    status, reason = "ok", None
                elif "VERIFICATION:- FAILED" in out:
                    status, reason = "failed", None
                else:
                    status, reason = "undecided", "kani did not finish: " + out[-300:].replace("\n", " ")
            except subprocess.TimeoutExpired:
                out, status, reason = "", "undecided", "timeout"
            results.append({"harness": n, "obligation": "kani::" + n, "kind": kind, "bound": bound, "discharges": what,
                            "status": status, "reason": reason, "wall_s": round(time.time() - t0, 1),
                            "cmd": " ".join(cmd), "output": out[-3000:] if status != "ok" else ""})
    finally:
        shutil.rmtree(work, ignore_errors=True)
    return results


if __name__ == "__main__":
    names = sys.argv[1:] or list(HARNESSES)
    for r in run_harnesses(names, os.environ.get("VERIF_REPO", "/repo")):
        print(r["harness"], r["status"], r["wall_s"], r["reason"] or "")
        if r["status"] == "failed":
            print(r["output"][-1500:])
