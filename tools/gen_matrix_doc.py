#!/usr/bin/env python3
"""Prints the seeded-change table of DESIGN.md B.6 from seeded/<id>/meta.json (written by
tools/run_seeded.py).  Developer aid; the one-line descriptions are hand-written."""
import json, os, re
VERIF = os.path.dirname(os.path.dirname(os.path.abspath(__file__)))
WHAT = {
    "C01-m1": "`is_base_level_for_key` skips a file",
    "C01-m2": "recovery sets the sequence counter to the START of the last replayed batch",
    "C01-r3m1": "seek-triggered level-0 compaction no longer pulls in the overlapping level-0 files",
    "C01-r3m2": "`LogWriter::new`: block offset of a reused log is `len / 32768` instead of `len % 32768`",
    "C02-r4m1": "recovery takes the sequence number of the LAST log only (an empty newest log resets it)",
    "C02-r4m2": "log reader does not reset the fragment buffer at a new `First` fragment",
    "C03-m1": "compaction takes the NEWEST snapshot as retention bound",
    "C03-m2": "`get_live_files` looks at the newest version only",
    "C03-r3m1": "`Table::get` answers \"deleted\" when the data-block seek runs off the end",
    "C03-r3m2": "reverse scan: entries newer than the snapshot update `last_operation_type`",
    "C04-m1": "`DatabaseIterator::next` forgets the current key when turning",
    "C04-m2": "`TwoLevelIterator::seek` stays on an exhausted block",
    "C04-r3m1": "`MergingIterator::seek` forgets to reset the merge direction",
    "C04-r3m2": "`TwoLevelIterator::seek_to_first` relies on a fresh data-block iterator",
    "C06-r4m1": "reverse scan lets a too-new tombstone through the sequence filter",
    "C06-r4m2": "the group's last sequence number is published BEFORE the unlocked log append / memtable insertion",
    "C07-m1": "base-level test ignores one level",
    "C07-m2": "boundary inputs of the compaction level dropped",
    "C07-r2m1": "level-0 input expansion stops early",
    "C07-r2m2": "compaction takes the newest snapshot as retention bound",
    "C07-r3m1": "level-0 widening only for size-triggered compactions",
    "C07-r3m2": "memtable output level: level-0 overlap test looks at the smallest key only",
    "C10-m1": "output file's largest key not updated",
    "C10-m2": "seek charged to the wrong file",
    "C10-r2m1": "version builder keeps a file deleted in another level",
    "C10-r2m2": "version builder loses a re-added file",
    "C10-r3m2": "compaction input range computed before the boundary files are added",
    "C11-r4m1": "`get_live_files` skips the bottom level",
    "C11-r4m2": "crash leftovers reclaimed at open only if recovery installed a new version",
    "C12-m1": "reader returns a record whose fragment chain was interrupted",
    "C12-m2": "writer's block offset wrong after reopen",
    "C12-r2m1": "log header arithmetic",
    "C12-r2m2": "log trailer arithmetic",
    "C13-m1": "`TwoLevelIterator::seek` stays on an exhausted block",
    "C13-m2": "`Table::get` reports a value for a tombstone",
    "C13-r2m1": "`TwoLevelIterator` positioning",
    "C13-r2m2": "`TwoLevelIterator::init_data_block`",
    "C13-r3m1": "filter windows computed without the 5-byte block trailer",
    "C14-m1": "filter boundaries shifted",
    "C14-m2": "probe bit computed differently by the reader",
    "C14-r2m1": "consecutive versions of a key added to the filter once - a key at a block start is missed",
    "C14-r2m2": "empty keys skipped when the filter is built",
    "C15-m1": "short length-prefixed slice padded instead of rejected",
    "C15-m2": "block CRC compared after use",
    "C15-r3m1": "log reader keeps a fragment chain open after a damaged fragment",
    "C15-r3m2": "batch decoder no longer cross-checks the operation count",
    "C16-m1": "partial trailing record reported as corruption",
    "C16-m2": "recovery does not sort the WAL numbers",
    "C16-r4m1": "torn-tail flag not raised when the tear falls exactly between header and payload (cut = 7 bytes)",
    "C16-r4m2": "`maybe_reuse_manifest` called before the torn-tail test (its side effect opens the torn manifest for appending)",
}


def short(o):
    o = re.sub(r"impl(RainDbIteratorfor)?", "", o)
    return o


rows = []
tot = caught = undec = missed = proof = bonly = 0
for sid in sorted(os.listdir(os.path.join(VERIF, "seeded"))):
    mp = os.path.join(VERIF, "seeded", sid, "meta.json")
    if not os.path.exists(mp):
        continue
    m = json.load(open(mp))
    det = m.get("detection", {})
    res = det.get("results", {})
    cb = det.get("caught_by", [])
    obls, fams, replays = set(), set(), False
    for p in cb:
        for l in res[p]["lines"]:
            if l.startswith("OBLIGATION-FAILED"):
                o = l.split(" : ")[0].replace("OBLIGATION-FAILED ", "")
                (fams if o.startswith("BOUNDED::") else obls).add(o)
            if l.startswith("VIOLATION") and not l.rstrip().endswith("no-failing-input-found"):
                replays = True
    und = [p for p, v in res.items() if v["exit"] == 2]
    tot += 1
    if cb:
        caught += 1
        if obls:
            proof += 1
        else:
            bonly += 1
        outcome = "caught"
    elif und:
        undec += 1
        outcome = "undecided (exit 2): " + "; ".join(l.split("reason=")[-1][:110] for p in und for l in res[p]["lines"][:1])
    else:
        missed += 1
        outcome = "MISSED"
    ob = sorted(obls)
    obtxt = "; ".join("`%s`" % short(o) for o in ob[:3]) + (" (+%d)" % (len(ob) - 3) if len(ob) > 3 else "")
    rows.append("| %s | %s | %s | %s | %s | %s |" % (
        sid, WHAT.get(sid, "see notes.md"), ",".join(cb) if cb else outcome, obtxt or "-",
        ", ".join(sorted(f.replace("BOUNDED::family_", "") for f in fams)) or "-", "yes" if replays else "-"))
print("| change | what it breaks | reported by the checks of | failed proof obligations | bounded families that fail | concrete input in the replay file |")
print("|---|---|---|---|---|---|")
print("\n".join(rows))
print()
print("%d changes: %d reported as violation (%d through a failed proof obligation, %d through a bounded family only), %d undecided (exit 2), %d missed."
      % (tot, caught, proof, bonly, undec, missed))
