#!/usr/bin/env python3
"""Developer aid: run every unit of units.json on the current tree (4 at a time) and print one line each."""
import json, subprocess, concurrent.futures, sys
c = json.load(open('/verif/units.json'))
us = sorted(c['units'])
def run(u):
    r = subprocess.run(['/verif/bin/check', '--unit', u], capture_output=True, text=True)
    return u, [l for l in r.stdout.splitlines() if l.startswith('unit=')][:1]
bad = 0
with concurrent.futures.ThreadPoolExecutor(4) as ex:
    for u, l in ex.map(run, us):
        line = l[0][:170] if l else '%s ??' % u
        if 'status=ok' not in line:
            bad += 1
        print(line)
sys.exit(1 if bad else 0)
