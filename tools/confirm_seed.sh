#!/bin/bash
# usage: tools/confirm_seed.sh <PROP> <m1|m2>     (developer aid; never touches /repo's working tree)
# Confirms a seeded change delivered under /tmp/seed-<PROP>/<m>/ in a scratch worktree:
#   demo passes without the patch, fails with it, and the full existing suite passes with it.
P="$1"; M="$2"; SRC=${SEEDROOT:-/tmp/seed}-$P/$M; WT=/var/tmp/confirm-$P-$M
export CARGO_TARGET_DIR=/var/tmp/seed-target CARGO_NET_OFFLINE=true
OUT=$SRC/confirm.txt; : > $OUT
git -C /repo worktree remove --force $WT 2>/dev/null; rm -rf $WT
git -C /repo worktree add -q --detach $WT HEAD || exit 9
cd $WT
git apply $SRC/demo.diff || { echo "demo.diff does not apply" | tee -a $OUT; git -C /repo worktree remove --force $WT; exit 8; }
CMD="$(grep -v "^\s*#" $SRC/demo_cmd.txt | grep -m1 cargo | sed -E "s/^.*cd [^ ]+ *(&&|;) *//")"
echo "demo cmd: $CMD" >> $OUT
( eval "$CMD" ) > $SRC/confirm_demo_clean.txt 2>&1; RC_CLEAN=$?
git apply $SRC/patch.diff || { echo "patch.diff does not apply" | tee -a $OUT; git -C /repo worktree remove --force $WT; exit 7; }
( eval "$CMD" ) > $SRC/confirm_demo_mutant.txt 2>&1; RC_MUT=$?
# full suite with the mutant but without the demo
git apply -R $SRC/demo.diff
cargo nextest run --workspace --no-fail-fast --test-threads 8 --offline > $SRC/confirm_suite.txt 2>&1
SUITE="$(grep -E 'Summary|^\s+FAIL' $SRC/confirm_suite.txt | tr '\n' ' ')"
echo "demo_without_patch_rc=$RC_CLEAN demo_with_patch_rc=$RC_MUT suite: $SUITE" | tee -a $OUT
cd /; git -C /repo worktree remove --force $WT
