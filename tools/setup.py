#!/usr/bin/env python3
"""MANIFEST.setup_cmd: offline sanity + warm-up. Builds nothing that is not on disk."""
import os, shutil, subprocess, sys
VERIF = os.path.dirname(os.path.dirname(os.path.abspath(__file__)))
ok = True
for tool in ("verus", "cargo-kani", "python3"):
    p = shutil.which(tool)
    print("%-12s %s" % (tool, p or "MISSING"))
    if tool == "verus" and not p:
        ok = False
os.makedirs(os.path.join(VERIF, "build"), exist_ok=True)
os.makedirs(os.path.join(VERIF, "evidence"), exist_ok=True)
# warm up verus (first run on a fresh machine is slower)
w = os.path.join(VERIF, "build", "_warm")
os.makedirs(w, exist_ok=True)
with open(os.path.join(w, "warm.rs"), "w") as f:
    f.write("use vstd::prelude::*;\nverus!{ proof fn t() ensures 1 + 1 == 2int {} }\nfn main(){}\n")
r = subprocess.run(["verus", "warm.rs"], cwd=w, capture_output=True, text=True)
print(r.stdout.strip() or r.stderr.strip())
if r.returncode != 0:
    ok = False
# warm up the replay harness (compiles raindb's dependencies once into build/replay-target; the
# bounded stand-ins report "unavailable" instead of failing if this does not build)
try:
    sys.path.insert(0, os.path.join(VERIF, "tools"))
    import replay
    with replay.ReplayBuild(os.environ.get("VERIF_REPO", "/repo")) as rb:
        print("replay harness", "built" if os.path.exists(rb.bin) else "missing")
except Exception as e:  # noqa
    print("replay harness warm-up failed:", str(e)[:500])
sys.exit(0 if ok else 1)
