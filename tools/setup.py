#!/usr/bin/env python3
"""MANIFEST.setup_cmd: offline sanity + warm-up. Builds nothing that is not on disk."""
import os, shutil, subprocess, sys
VERIF = os.path.dirname(os.path.dirname(os.path.abspath(__file__)))
ok = True
for tool in ("verus", "cargo-kani", "python3"):
    p = shutil.which(tool)
    print("%-12s %s" % (tool, p or "MISSING"))
    if tool == "verus" and not p:
        ok = False
os.makedirs(os.path.join(VERIF, "build"), exist_ok=True)
os.makedirs(os.path.join(VERIF, "evidence"), exist_ok=True)
# warm up verus (first run on a fresh machine is slower)
w = os.path.join(VERIF, "build", "_warm")
os.makedirs(w, exist_ok=True)
with open(os.path.join(w, "warm.rs"), "w") as f:
    f.write("use vstd::prelude::*;\nverus!{ proof fn t() ensures 1 + 1 == 2int {} }\nfn main(){}\n")
r = subprocess.run(["verus", "warm.rs"], cwd=w, capture_output=True, text=True)
print(r.stdout.strip() or r.stderr.strip())
if r.returncode != 0:
    ok = False
sys.exit(0 if ok else 1)
