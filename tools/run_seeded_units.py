#!/usr/bin/env python3
"""Fast self-test (developer aid): every seeded change against the Verus units that extract code
from a file it changes - no bounded families, no vacuity probes.  Writes seeded/UNIT_MATRIX.md.
usage: tools/run_seeded_units.py [seed-id ...]"""
import concurrent.futures, json, os, re, subprocess, sys
VERIF = os.path.dirname(os.path.dirname(os.path.abspath(__file__)))
sys.path.insert(0, os.path.join(VERIF, "tools"))

def sh(cmd, **kw):
    return subprocess.run(cmd, shell=True, capture_output=True, text=True, **kw)

def unit_files():
    """unit -> set of /repo files its generated crate extracts from (via tools/extract.py)"""
    cfg = json.load(open(os.path.join(VERIF, "units.json")))
    res = {}
    def one(u):
        spec = os.path.join(VERIF, cfg["units"][u]["spec"])
        out = "/var/tmp/vx_unitfiles/%s.rs" % u
        p = sh("python3 %s/tools/extract.py %s --repo /repo --out %s" % (VERIF, spec, out))
        try:
            m = json.loads(p.stdout)
        except Exception:
            return u, set()
        fs = set(f["file"] for f in m.get("functions", []) if f.get("file")) | set(i["file"] for i in m.get("items", []) if i.get("file"))
        return u, fs
    with concurrent.futures.ThreadPoolExecutor(max_workers=12) as ex:
        for u, fs in ex.map(one, sorted(cfg["units"])):
            res[u] = fs
    return res, cfg

def main():
    only = sys.argv[1:]
    uf, cfg = unit_files()
    known = set(k["obligation"] for k in json.load(open(os.path.join(VERIF, "known_findings.json")))["findings"] if k.get("status") == "known")
    rows = []
    for sid in sorted(os.listdir(os.path.join(VERIF, "seeded"))):
        d = os.path.join(VERIF, "seeded", sid)
        if not os.path.isdir(d) or (only and sid not in only):
            continue
        meta = json.load(open(os.path.join(d, "meta.json")))
        changed = set(meta["files_changed"])
        scratch = "/var/tmp/raindb-seedunits.%d" % os.getpid()
        sh("rm -rf %s && mkdir -p %s && git -C /repo archive HEAD | tar -x -C %s" % (scratch, scratch, scratch))
        a = sh("cd %s && (git apply %s/patch.diff 2>/dev/null || patch -p1 -s -F3 --no-backup-if-mismatch < %s/patch.diff)" % (scratch, d, d))
        if a.returncode != 0:
            rows.append((sid, meta["breaks_property"], "patch-does-not-apply", ""))
            continue
        units = [u for u in sorted(uf) if uf[u] & changed]
        target = meta["breaks_property"]
        def one(u):
            r = sh("cd %s && bin/check --unit %s" % (VERIF, u), env=dict(os.environ, VERIF_REPO=scratch, VERIF_BUILD_TAG="_su", VERIF_NO_PROBE="1"))
            failed = [l.strip().split(" | ")[0].replace("FAILED ", "") for l in r.stdout.split("\n") if l.strip().startswith("FAILED")]
            st = re.search(r"status=(\w+)", r.stdout)
            return u, (st.group(1) if st else "crash"), failed
        fails, undec = [], []
        with concurrent.futures.ThreadPoolExecutor(max_workers=8) as ex:
            for u, st, failed in ex.map(one, units):
                failed = [f for f in failed if f not in known]
                if st == "failed" and failed:
                    fails += failed
                elif st != "ok":
                    undec.append(u)
        sh("rm -rf %s" % scratch)
        props_of_units = set(p for p in cfg["properties"] for u in cfg["properties"][p]["units"] if any(f.startswith(u + "::") for f in fails))
        outcome = "VERUS-OBLIGATION-FAILS" if fails else ("undecided: " + ",".join(undec) if undec else "no-verus-obligation-fails")
        rows.append((sid, target, outcome + (" (target property registered)" if fails and target in props_of_units else (" (unit not registered for the target property)" if fails else "")), "; ".join(sorted(set(fails))[:4])))
        print(rows[-1]); sys.stdout.flush()
    n = len(rows); nf = sum(1 for r in rows if r[2].startswith("VERUS"))
    print("seeds: %d, failed Verus obligation: %d, undecided: %d, none: %d" % (n, nf, sum(1 for r in rows if r[2].startswith("undecided")), sum(1 for r in rows if r[2].startswith("no-verus"))))
    if only:
        return  # a partial run does not replace the full table
    with open(os.path.join(VERIF, "seeded", "UNIT_MATRIX.md"), "w") as f:
        f.write("# Seeded changes vs. Verus units only (tools/run_seeded_units.py; no bounded families, no probes)\n\n| seeded change | breaks | outcome | failed obligations (first 4) |\n|---|---|---|---|\n")
        for r in rows:
            f.write("| %s | %s | %s | %s |\n" % r)


if __name__ == "__main__":
    main()
