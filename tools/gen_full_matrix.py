#!/usr/bin/env python3
"""Writes seeded/MATRIX.md from the `detection` records tools/run_seeded.py left in every
seeded/<id>/meta.json (each row: the LAST full run of that change, with the /repo commit it ran at)."""
import json, os, re
VERIF = os.path.dirname(os.path.dirname(os.path.abspath(__file__)))
rows = []
for sid in sorted(os.listdir(os.path.join(VERIF, "seeded"))):
    mp = os.path.join(VERIF, "seeded", sid, "meta.json")
    if not os.path.exists(mp):
        continue
    m = json.load(open(mp))
    det = m.get("detection") or {}
    res = det.get("results") or {}
    caught = sorted(p for p, v in res.items() if v.get("exit") == 1)
    undec = sorted(p for p, v in res.items() if v.get("exit") == 2)
    obl = set()
    for v in res.values():
        for l in v.get("lines", []):
            if l.startswith("OBLIGATION-FAILED"):
                obl.add(l.split(" : ")[0].replace("OBLIGATION-FAILED ", ""))
    outcome = ("CAUGHT by " + ",".join(caught)) if caught else (("undecided (exit 2) in " + ",".join(undec)) if undec else ("missed" if res else "not run"))
    rows.append((sid, m.get("breaks_property", "?"), outcome, "; ".join(sorted(obl))[:400], det.get("checked_at_repo_commit", "")))
with open(os.path.join(VERIF, "seeded", "MATRIX.md"), "w") as f:
    f.write("# Seeded changes vs. the registered quick checks (last full run of each change; tools/run_seeded.py, collected by tools/gen_full_matrix.py)\n\n"
            "Rows of older rounds were run against older commits of /verif and /repo (last column); `seeded/UNIT_MATRIX.md` is the run of ALL changes against the Verus units of the committed machinery.\n\n"
            "| seeded change | breaks | outcome | failed obligations | /repo commit |\n|---|---|---|---|---|\n")
    for r in rows:
        f.write("| %s | %s | %s | %s | %s |\n" % r)
print(len(rows), "rows;", sum(1 for r in rows if r[2].startswith("CAUGHT")), "caught,", sum(1 for r in rows if r[2].startswith("undecided")), "undecided,", sum(1 for r in rows if r[2] == "missed"), "missed,", sum(1 for r in rows if r[2] == "not run"), "not run")
