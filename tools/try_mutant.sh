#!/bin/sh
# usage: tools/try_mutant.sh <unit> <file> <sed-expr>   (developer aid: applies a sed edit on a scratch copy of src/)
set -e
U="$1"; F="$2"; E="$3"
S=/var/tmp/raindb-mut.$$
mkdir -p $S && cp -r /repo/src /repo/Cargo.toml $S/
sed -i "$E" $S/$F
if cmp -s $S/$F /repo/$F; then echo "MUTANT-NOOP"; rm -rf $S; exit 3; fi
VERIF_REPO=$S /verif/bin/check --unit $U | grep -v '^    ' | head -${LINES_MAX:-12}
rm -rf $S
