#!/bin/sh
# Runs the repository's test-suite the way BASELINE.json does (nextest, 8 threads), prints a summary.
cd "${1:-/repo}" && cargo nextest run --workspace --no-fail-fast --test-threads 8 --offline 2>&1 | tail -${2:-6}
