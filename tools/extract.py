#!/usr/bin/env python3
"""Mechanical extractor: builds one single-file Verus crate per unit from a .vspec
template and the *current* working tree of the repository.

Directives (lines starting with `//@`) are documented in DESIGN.md section 2.1/2.2.
Everything the extractor copies from the repository is copied verbatim except for
the rewrite rules R1..R10, each of which is counted and reported.
"""
import hashlib
import json
import os
import re
import sys

sys.path.insert(0, os.path.dirname(os.path.abspath(__file__)))
import rustlex  # noqa: E402
from rustlex import Source, IDENT, PUNCT, STR, LexError  # noqa: E402

VERIF = os.path.dirname(os.path.dirname(os.path.abspath(__file__)))


class LostAnchor(Exception):
    """An item / anchor named by a directive is not in the tree any more."""


class SpecError(Exception):
    """The spec file itself is malformed (framework bug, not a repo change)."""


_src_cache = {}


def load_source(repo, rel):
    key = (repo, rel)
    if key not in _src_cache:
        p = os.path.join(repo, rel)
        if not os.path.exists(p):
            raise LostAnchor("file %s does not exist" % rel)
        with open(p, encoding="utf-8") as f:
            text = f.read()
        try:
            _src_cache[key] = Source(text, rel)
        except LexError as e:
            raise LostAnchor("cannot tokenize %s: %s" % (rel, e))
    return _src_cache[key]


# ----------------------------------------------------------------------------------------------
# token-span edit helper
# ----------------------------------------------------------------------------------------------
class Edits:
    def __init__(self, text, base):
        self.text = text      # whole file text
        self.base = base      # (start,end) byte span being emitted
        self.ed = []          # (start, end, replacement, priority)

    def replace(self, start, end, repl, prio=0):
        self.ed.append((start, end, repl, prio))

    def insert(self, pos, s, prio=0):
        self.ed.append((pos, pos, s, prio))

    def render(self):
        """Returns list of (chunk_text, origin_byte or None)."""
        s0, e0 = self.base
        # drop edits nested inside a deletion/replacement span
        eds = sorted(self.ed, key=lambda e: (e[0], e[3], -(e[1] - e[0])))
        reps = [e for e in eds if e[1] > e[0]]
        out = []
        kept = []
        for e in eds:
            inside = False
            for r in reps:
                if r is e:
                    continue
                if e[0] == e[1]:
                    if r[0] < e[0] < r[1]:
                        inside = True
                        break
                elif r[0] <= e[0] and e[1] <= r[1] and (r[1] - r[0]) > (e[1] - e[0]):
                    inside = True
                    break
            if not inside:
                kept.append(e)
        pos = s0
        for (a, b, rep, _p) in kept:
            if a < pos:
                if a == b:
                    # insertion at a point already passed (equal start) - emit now
                    out.append((rep, None))
                    continue
                raise SpecError("overlapping edits at byte %d" % a)
            if a > pos:
                out.append((self.text[pos:a], pos))
            if rep:
                out.append((rep, None))
            pos = b
        if pos < e0:
            out.append((self.text[pos:e0], pos))
        return out


# ----------------------------------------------------------------------------------------------
# rewrite rules on a token range
# ----------------------------------------------------------------------------------------------
LOG_MACROS = {"trace", "debug", "info", "warn", "error"}


def apply_body_rules(src, lo, hi, ed, rules):
    """Apply R1, R2, R5, R7 to sig-token range [lo,hi)."""
    s = src.sig
    i = lo
    while i < hi:
        t = s[i]
        # R1: log::level!( ... );
        if t.kind == IDENT and t.text == "log" and src.is_p(i + 1, ":") and src.is_p(i + 2, ":") \
                and src.is_id(i + 3) and s[i + 3].text in LOG_MACROS and src.is_p(i + 4, "!") \
                and i + 5 < hi and s[i + 5].text in "([{":
            close = src.match[i + 5]
            if src.is_p(close + 1, ";"):
                ed.replace(t.start, s[close + 1].end, "", 5)
                nxt = close + 2
            else:
                ed.replace(t.start, s[close].end, "()", 5)
                nxt = close + 1
            rules["R1"] = rules.get("R1", 0) + 1
            i = nxt
            continue
        # R2: format!( ... )
        if t.kind == IDENT and t.text == "format" and src.is_p(i + 1, "!") and i + 2 < hi \
                and s[i + 2].text in "([{":
            close = src.match[i + 2]
            ed.replace(t.start, s[close].end, "vx_string()", 5)
            rules["R2"] = rules.get("R2", 0) + 1
            i = close + 1
            continue
        # R2 (string literals): "text".to_string() / .to_owned() / String::from("text")
        if t.kind == STR and src.is_p(i + 1, ".") and src.is_id(i + 2) and s[i + 2].text in ("to_string", "to_owned") \
                and src.is_p(i + 3, "(") and src.match[i + 3] == i + 4:
            ed.replace(t.start, s[i + 4].end, "vx_string()", 5)
            rules["R2"] = rules.get("R2", 0) + 1
            i += 5
            continue
        # R2 (error text): `<ident>.to_string()` - the Display text of an error value
        if t.kind == IDENT and src.is_p(i + 1, ".") and src.is_id(i + 2, "to_string") and src.is_p(i + 3, "(") \
                and src.match[i + 3] == i + 4 and not src.is_p(i - 1, ".") and not src.is_p(i - 1, ":"):
            ed.replace(t.start, s[i + 4].end, "vx_string()", 5)
            rules["R2"] = rules.get("R2", 0) + 1
            i += 5
            continue
        # R8 (paths): `super::a::b::item` / `crate::a::Item` -> `item` / `Item` (module prefixes are
        # dropped because every extracted item lives in the root of the generated crate)
        if t.kind == IDENT and t.text in ("super", "crate") and src.is_p(i + 1, ":") and src.is_p(i + 2, ":") \
                and not src.is_p(i - 1, ":"):
            q = i
            while q + 2 < hi and src.is_id(q) and src.is_p(q + 1, ":") and src.is_p(q + 2, ":") and src.is_id(q + 3) \
                    and (s[q].text in ("super", "crate") or (s[q].text.islower() and src.is_p(q + 4, ":") and src.is_p(q + 5, ":"))
                         or (s[q].text.islower() and s[q].text not in ("self",) and not s[q + 3].text[0].isupper() and False)):
                q += 3
            # also strip one lower-case module segment directly in front of a lower-case item (utils::f)
            while q + 3 < hi and src.is_id(q) and s[q].text.islower() and src.is_p(q + 1, ":") and src.is_p(q + 2, ":") \
                    and src.is_id(q + 3) and (src.is_p(q + 4, "(") or (src.is_p(q + 4, ":") and src.is_p(q + 5, ":"))):
                q += 3
            if q > i:
                ed.replace(t.start, s[q].start, "", 5)
                rules["R8"] = rules.get("R8", 0) + 1
                i = q
                continue
        # R2 (error construction): io::Error::new(kind, text) -> vx_io_error_new(kind, text)
        if t.kind == IDENT and t.text == "io" and src.is_p(i + 1, ":") and src.is_p(i + 2, ":") and src.is_id(i + 3, "Error") \
                and src.is_p(i + 4, ":") and src.is_p(i + 5, ":") and src.is_id(i + 6, "new") and src.is_p(i + 7, "("):
            ed.replace(t.start, s[i + 6].end, "vx_io_error_new", 5)
            rules["R2"] = rules.get("R2", 0) + 1
            i += 7
            continue
        # R5: assert!(cond, "msg", ...)  /  debug_assert!
        if t.kind == IDENT and t.text in ("assert", "debug_assert") and src.is_p(i + 1, "!") \
                and src.is_p(i + 2, "("):
            close = src.match[i + 2]
            j = i + 3
            comma = None
            while j < close:
                if src.is_p(j, ","):
                    comma = j
                    break
                j = src.skip_group(j)
            if comma is not None and comma + 1 < close:
                ed.replace(s[comma].start, s[close].start, "", 5)
            elif comma is not None:
                ed.replace(s[comma].start, s[close].start, "", 5)
            # the condition becomes the precondition of a call, so that it is parsed as Verus code
            # (closures with contracts inside it) and is a proof obligation
            ed.replace(t.start, s[i + 1].end, "vx_assert", 5)
            rules["R5"] = rules.get("R5", 0) + 1
            # continue scanning inside the condition
            i += 3
            continue
        # R7: [a, b].concat()
        if t.kind == IDENT and t.text == "concat" and src.is_p(i - 1, ".") and src.is_p(i - 2, "]") \
                and src.is_p(i + 1, "(") and src.match[i + 1] == i + 2:
            o = src.match[i - 2]
            commas = []
            j = o + 1
            while j < i - 2:
                if src.is_p(j, ","):
                    commas.append(j)
                j = src.skip_group(j)
            if len(commas) == 1 or (len(commas) == 2 and commas[1] == i - 3):
                ed.replace(s[o].start, s[o].end, "vx_concat2(", 4)
                ed.replace(s[i - 2].start, s[i + 2].end, ")", 4)
                rules["R7"] = rules.get("R7", 0) + 1
        i += 1


def strip_inner_attrs(src, lo, hi, ed, rules):
    """R4 inside bodies: drop #[...] attributes (e.g. #[allow], #[cfg] are reported)."""
    s = src.sig
    i = lo
    while i < hi:
        if src.is_p(i, "#") and src.is_p(i + 1, "["):
            close = src.match[i + 1]
            ed.replace(s[i].start, s[close].end, "", 6)
            rules["R4"] = rules.get("R4", 0) + 1
            i = close + 1
            continue
        i += 1



# ----------------------------------------------------------------------------------------------
# R14: `for` loops this Verus build does not ingest (a `continue` inside, `.iter().enumerate()`,
# `.iter().rev().enumerate()`, iteration over a `&Vec`) are written as the `while` loop the
# standard library defines them to be.  Only the loop HEADER is rewritten; the body is verbatim.
#   range          for PAT in LO..HI { B }                  -> let mut vx_iN = LO; let vx_hiN = HI;
#                                                              while vx_iN < vx_hiN { let PAT = vx_iN; vx_iN += 1; B }
#   enumerate      for PAT in E.iter().enumerate() { B }    -> let mut vx_iN: usize = 0; let vx_hiN = E.len();
#                                                              while .. { let PAT = (vx_iN, &E[vx_iN]); vx_iN += 1; B }
#   rev-enumerate  for PAT in E.iter().rev().enumerate()    -> .. let PAT = (vx_iN, &E[vx_hiN - 1 - vx_iN]); ..
#   ref            for PAT in E { B }   (E: &Vec<T> / &[T]) -> .. let PAT = &(E)[vx_iN]; ..
# The counter is advanced at the START of the body (exactly what `Range::next` / `Iter::next` do
# before the body runs), so a `continue` in the body needs no rewriting.  ASSUMED (A-std): the
# iteration protocol of Range<usize>, slice::Iter, Enumerate and Rev.
# ----------------------------------------------------------------------------------------------
def desugar_for(src, loop, n, kind, ed, rules, where):
    s = src.sig
    kw, lo_, _hi = loop
    if s[kw].text != "for":
        raise LostAnchor("%s: loop %d is not a `for` loop (R14)" % (where, n))
    q = kw + 1
    while q < lo_ and not src.is_id(q, "in"):
        q = src.skip_group(q) if s[q].text in "([" else q + 1
    if q >= lo_:
        raise LostAnchor("%s: cannot find `in` of for loop %d (R14)" % (where, n))
    pat = src.text[s[kw + 1].start:s[q - 1].end]
    e0, e1 = q + 1, lo_          # token range of the iterated expression
    def tail_is(names):
        # the expression ends in .name1().name2()...
        k = e1
        for nm in reversed(names):
            if not (src.is_p(k - 1, ")") and src.is_p(k - 2, "(") and src.is_id(k - 3, nm) and src.is_p(k - 4, ".")):
                return None
            k -= 4
        return k
    iv, hv = "vx_i%d" % n, "vx_hi%d" % n
    if kind == "range":
        d = None
        k = e0
        while k + 1 < e1:
            if src.is_p(k, ".") and src.is_p(k + 1, ".") and s[k].end == s[k + 1].start:
                d = k
                break
            k = src.skip_group(k) if s[k].text in "([{" else k + 1
        if d is None or src.is_p(d + 2, "="):
            raise LostAnchor("%s: for loop %d is not over a half-open range (R14)" % (where, n))
        lo_txt = src.text[s[e0].start:s[d - 1].end]
        hi_txt = src.text[s[d + 2].start:s[e1 - 1].end]
        head = "let mut %s = %s; let %s = %s; while %s < %s " % (iv, lo_txt, hv, hi_txt, iv, hv)
        bind = " let %s = %s; %s += 1; " % (pat, iv, iv)
    elif kind in ("enumerate", "rev-enumerate"):
        k = tail_is(["iter", "enumerate"] if kind == "enumerate" else ["iter", "rev", "enumerate"])
        if k is None:
            raise LostAnchor("%s: for loop %d does not iterate over .iter()%s.enumerate() (R14)" % (where, n, "" if kind == "enumerate" else ".rev()"))
        ex = src.text[s[e0].start:s[k - 1].end]
        head = "let mut %s: usize = 0; let %s: usize = %s.len(); while %s < %s " % (iv, hv, ex, iv, hv)
        if kind == "enumerate":
            bind = " let %s = (%s, &%s[%s]); %s += 1; " % (pat, iv, ex, iv, iv)
        else:
            bind = " let %s = (%s, &%s[%s - 1 - %s]); %s += 1; " % (pat, iv, ex, hv, iv, iv)
    elif kind == "ref":
        ex = src.text[s[e0].start:s[e1 - 1].end]
        head = "let mut %s: usize = 0; let %s: usize = (%s).len(); while %s < %s " % (iv, hv, ex, iv, hv)
        bind = " let %s = &(%s)[%s]; %s += 1; " % (pat, ex, iv, iv)
    elif kind == "iter":
        # `for x in e.iter()` over a Vec / slice: as kind `ref`, on the expression in front of `.iter()`
        k = tail_is(["iter"])
        if k is None:
            raise LostAnchor("%s: for loop %d does not iterate over .iter() (R14)" % (where, n))
        ex = src.text[s[e0].start:s[k - 1].end]
        head = "let mut %s: usize = 0; let %s: usize = (%s).len(); while %s < %s " % (iv, hv, ex, iv, hv)
        bind = " let %s = &(%s)[%s]; %s += 1; " % (pat, ex, iv, iv)
    elif kind == "vec":
        # `for x in v` over a Vec<T> BY VALUE (the elements are moved out one by one): the loop std
        # defines it to be, with std's vec::IntoIter written as the prelude stand-in VxVecIter
        # (ASSUMED, A-std: `into_iter()` yields the vector's elements in order; prelude/vec_iter.rs)
        ex = src.text[s[e0].start:s[e1 - 1].end]
        qv = "vx_q%d" % n
        head = "let mut %s = vx_vec_into_iter(%s); while %s.has_next() " % (qv, ex, qv)
        bind = " let %s = %s.take_next(); " % (pat, qv)
    else:
        raise SpecError("%s: unknown desugar-for kind %r" % (where, kind))
    ed.replace(s[kw].start, s[lo_].start, head, 2)
    ed.insert(s[lo_].end, bind, 0)
    rules["R14"] = rules.get("R14", 0) + 1


# ----------------------------------------------------------------------------------------------
# R15: destructuring assignment `(a, b) = EXPR;` (not ingested by this Verus build) is written
# `let vx_tN = EXPR; a = vx_tN.0; b = vx_tN.1;` - the meaning Rust gives it.  Opt-in per function /
# slice (`//@desugar-tuple-assign`); only the form with two plain identifiers is handled.
# ----------------------------------------------------------------------------------------------
def desugar_tuple_assign(src, lo, hi, ed, rules):
    s = src.sig
    n = 0
    i = lo
    while i + 6 < hi:
        if src.is_p(i, "(") and src.is_id(i + 1) and src.is_p(i + 2, ",") and src.is_id(i + 3) and src.is_p(i + 4, ")") \
                and src.is_p(i + 5, "=") and not src.is_p(i + 6, "=") \
                and (src.is_p(i - 1, ";") or src.is_p(i - 1, "{") or src.is_p(i - 1, "}")):
            j = i + 6
            while j < hi and not src.is_p(j, ";"):
                j = src.skip_group(j) if s[j].text in "([{" else j + 1
            if j >= hi:
                break
            n += 1
            a, b = s[i + 1].text, s[i + 3].text
            ed.replace(s[i].start, s[i + 5].end, "let vx_t%d =" % n, 2)
            ed.insert(s[j].end, " %s = vx_t%d.0; %s = vx_t%d.1;" % (a, n, b, n), 2)
            rules["R15"] = rules.get("R15", 0) + 1
            i = j + 1
            continue
        i += 1
    return n

# ----------------------------------------------------------------------------------------------
# output builder with line map
# ----------------------------------------------------------------------------------------------
class Out:
    def __init__(self):
        self.lines = []     # text lines
        self.origin = []    # (kind, file, line) per line
        self._partial = ""
        self._porigin = None

    def emit(self, text, kind, file=None, line=None, src=None, byte=None):
        """Emit text (may contain newlines). If src/byte given, lines are mapped to the source."""
        parts = text.split("\n")
        for k, part in enumerate(parts):
            if self._porigin is None or (self._porigin[0] != "source" and kind == "source"):
                if src is not None and byte is not None:
                    # compute line of this part
                    off = byte + sum(len(p) + 1 for p in parts[:k])
                    self._porigin = ("source", src.path, src.line_of(off))
                else:
                    self._porigin = (kind, file, (line + k) if line is not None else None)
            self._partial += part
            if k < len(parts) - 1:
                self.lines.append(self._partial)
                self.origin.append(self._porigin)
                self._partial = ""
                self._porigin = None

    def finish(self):
        if self._partial:
            self.lines.append(self._partial)
            self.origin.append(self._porigin or ("template", None, None))
            self._partial = ""
            self._porigin = None

    @property
    def lineno(self):
        return len(self.lines) + 1


# ----------------------------------------------------------------------------------------------
# directive parsing
# ----------------------------------------------------------------------------------------------
DIR_RE = re.compile(r"^\s*//@\s*(\S+)\s*(.*)$")


def split_target(arg):
    """'src/x.rs :: impl A for B :: f  props: C01 ret: r' -> (file, parts, opts)"""
    opts = {}
    m = re.search(r"\s+(props|ret|keep|retarget|derive|flags|iter|nth|drop|as|subst|retype):", arg)
    optstr = ""
    if m:
        optstr = arg[m.start():]
        arg = arg[:m.start()]
    for om in re.finditer(r"(props|ret|keep|retarget|derive|flags|iter|nth|drop|as|subst|retype):\s*(.*?)(?=\s+(?:props|ret|keep|retarget|derive|flags|iter|nth|drop|as|subst|retype):|$)", optstr):
        opts[om.group(1)] = om.group(2).strip()
    parts = [p.strip() for p in arg.split("::")]
    # re-join '::' inside impl headers / paths is not supported: headers use single ':' rarely.
    return parts, opts


def read_lines(path):
    with open(path, encoding="utf-8") as f:
        return f.read().split("\n")


class Generator:
    def __init__(self, repo, probe=False):
        self.repo = repo
        self.probe = probe
        self.out = Out()
        self.functions = []     # metadata per extracted fn
        self.items = []         # metadata per extracted non-fn item
        self.includes = []
        self.probe_lines = []   # generated line numbers of vacuity probes
        self.cur_impl = None    # (file, header_part, is_trait_impl)

    # -- template processing ---------------------------------------------------------------
    def process_file(self, path):
        lines = read_lines(path)
        rel = os.path.relpath(path, VERIF)
        self.includes.append(rel)
        i = 0
        n = len(lines)
        while i < n:
            line = lines[i]
            m = DIR_RE.match(line)
            if not m:
                self.out.emit(line + "\n", "template", rel, i + 1)
                i += 1
                continue
            cmd, arg = m.group(1), m.group(2).strip()
            if cmd == "include":
                if arg not in self.includes:      # include-once
                    self.process_file(os.path.join(VERIF, arg))
                i += 1
            elif cmd == "const" or cmd == "enum" or cmd == "item" or cmd == "type":
                self.do_simple_item(cmd, arg, rel, i + 1)
                i += 1
            elif cmd == "struct":
                self.do_struct(arg, rel, i + 1)
                i += 1
            elif cmd == "impl":
                self.do_impl_open(arg, rel, i + 1)
                i += 1
            elif cmd == "trait":
                self.do_trait_open(arg, rel, i + 1)
                i += 1
            elif cmd == "endtrait":
                self.out.emit("}\n", "template", rel, i + 1)
                self.cur_trait = None
                i += 1
            elif cmd == "tfn":
                body = []
                j = i + 1
                while j < n and not (DIR_RE.match(lines[j]) and DIR_RE.match(lines[j]).group(1) == "endtfn"):
                    body.append(lines[j])
                    j += 1
                if j >= n:
                    raise SpecError("%s:%d: //@tfn without //@endtfn" % (rel, i + 1))
                self.do_trait_fn(arg, body, rel, i + 1)
                i = j + 1
            elif cmd == "endimpl":
                self.out.emit("}\n", "template", rel, i + 1)
                self.cur_impl = None
                i += 1
            elif cmd in ("fn", "slice"):
                # collect sections until //@endfn
                sections = []
                cur = None
                j = i + 1
                while True:
                    if j >= n:
                        raise SpecError("%s:%d: //@fn without //@endfn" % (rel, i + 1))
                    mm = DIR_RE.match(lines[j])
                    if mm:
                        c2, a2 = mm.group(1), mm.group(2).strip()
                        if c2 == "endfn":
                            break
                        if c2 in ("sig", "loop", "body-start", "body-end", "loop-start", "loop-end",
                                  "before", "after", "replace-type", "decl", "closure", "opaque-closure", "desugar-for", "desugar-tuple-assign", "drop-stmt", "deref-add-assign"):
                            cur = {"cmd": c2, "arg": a2, "lines": [], "line0": j + 2}
                            sections.append(cur)
                        else:
                            raise SpecError("%s:%d: unknown fn subsection %s" % (rel, j + 1, c2))
                    else:
                        if cur is None:
                            if lines[j].strip():
                                raise SpecError("%s:%d: text outside a subsection" % (rel, j + 1))
                        else:
                            cur["lines"].append(lines[j])
                    j += 1
                if cmd == "slice":
                    self.do_slice(arg, sections, rel, i + 1)
                else:
                    self.do_fn(arg, sections, rel, i + 1)
                i = j + 1
            else:
                raise SpecError("%s:%d: unknown directive %s" % (rel, i + 1, cmd))

    # -- items -----------------------------------------------------------------------------
    def locate(self, arg):
        parts, opts = split_target(arg)
        if self.cur_impl is not None and len(parts) == 1:
            file = self.cur_impl[0]
            path = [self.cur_impl[1], "fn " + parts[0]]
        else:
            file = parts[0]
            path = parts[1:]
            # convenience: last part without a kind keyword is taken from the directive
        src = load_source(self.repo, file)
        return src, file, path, opts

    def do_simple_item(self, cmd, arg, rel, lineno):
        src, file, path, opts = self.locate(arg)
        kind = {"const": "const", "enum": "enum", "type": "type"}.get(cmd)
        if kind and not path[-1].startswith(kind + " "):
            path[-1] = kind + " " + path[-1]
        try:
            it, _chain = rustlex.find_item(src, path)
        except LexError as e:
            raise LostAnchor(str(e))
        if it is None:
            raise LostAnchor("%s :: %s not found" % (file, " :: ".join(path)))
        s = src.sig
        start = s[it.start_nonattr].start
        end = s[it.last].end
        ed = Edits(src.text, (start, end))
        rules = {}
        if it.vis:
            ed.replace(s[it.vis[0]].start, s[it.vis[1] - 1].end, "pub", 3)
        else:
            ed.insert(start, "pub ", 3)
        rules["R3"] = 1
        if it.first != it.start_nonattr:
            rules["R4"] = rules.get("R4", 0) + 1
        if it.body_open is not None:
            strip_inner_attrs(src, it.body_open + 1, src.match[it.body_open], ed, rules)
        if kind == "enum" and "keep" in opts and it.body_open is not None:
            # R9 for enums: keep only the named variants (the others are listed as dropped)
            keep = opts["keep"].split()
            o, c = it.body_open, src.match[it.body_open]
            i = o + 1
            seen, dropped = [], []
            while i < c:
                v0 = i
                while src.is_p(i, "#") and src.is_p(i + 1, "["):
                    i = src.match[i + 1] + 1
                if not src.is_id(i):
                    raise LostAnchor("%s: cannot parse variants of %s" % (file, path[-1]))
                name = s[i].text
                j = i + 1
                while j < c and not src.is_p(j, ","):
                    j = src.skip_group(j)
                vend = s[j].end if j < c else s[j - 1].end
                if name in keep:
                    seen.append(name)
                else:
                    dropped.append(name)
                    # also drop the doc comments in front of the variant
                    ed.replace(s[v0 - 1].end, vend, "\n", 4)
                    rules["R9"] = rules.get("R9", 0) + 1
                i = j + 1
            for k in keep:
                if k not in seen:
                    raise LostAnchor("%s: enum %s has no variant %s" % (file, path[-1], k))
            extra_meta = {"variants_kept": seen, "variants_dropped": dropped}
        else:
            extra_meta = None
        derive = opts.get("derive")
        if derive:
            self.out.emit("#[derive(%s)]\n" % ", ".join(derive.split()), "template", rel, lineno)
        self.emit_chunks(ed.render(), src)
        self.out.emit("\n", "template", rel, lineno)
        self.items.append(self.item_meta(src, file, path, it, rules, extra_meta))

    def item_meta(self, src, file, path, it, rules, extra=None):
        s = src.sig
        start = s[it.first].start
        end = s[it.last].end
        text = src.text[start:end]
        d = {
            "item": " :: ".join(path),
            "file": file,
            "lines": [src.line_of(start), src.line_of(end)],
            "sha256": hashlib.sha256(text.encode()).hexdigest(),
            "rules": rules,
        }
        if extra:
            d.update(extra)
        return d

    def emit_chunks(self, chunks, src):
        for text, origin in chunks:
            if origin is None:
                self.out.emit(text, "inserted")
            else:
                self.out.emit(text, "source", src=src, byte=origin)

    def do_struct(self, arg, rel, lineno):
        src, file, path, opts = self.locate(arg)
        if not path[-1].startswith("struct "):
            path[-1] = "struct " + path[-1]
        it, _ = rustlex.find_item(src, path)
        if it is None:
            raise LostAnchor("%s :: %s not found" % (file, " :: ".join(path)))
        s = src.sig
        rules = {"R3": 0, "R9": 0}
        keep = opts.get("keep", "*").split()
        retarget = {}
        for kv in opts.get("retarget", "").split(";"):
            if "=" in kv:
                k, v = kv.split("=", 1)
                retarget[k.strip()] = v.strip()
        if it.body_open is None or s[it.body_open].text != "{":
            # tuple / unit struct: copy verbatim
            start, end = s[it.start_nonattr].start, s[it.last].end
            ed = Edits(src.text, (start, end))
            if it.vis:
                ed.replace(s[it.vis[0]].start, s[it.vis[1] - 1].end, "pub", 3)
            else:
                ed.insert(start, "pub ", 3)
            self.emit_chunks(ed.render(), src)
            self.out.emit("\n", "template", rel, lineno)
            self.items.append(self.item_meta(src, file, path, it, rules))
            return
        o, c = it.body_open, src.match[it.body_open]
        hdr = src.text[s[it.kw].start:s[o].end]
        if "no-where" in opts.get("flags", ""):
            # R4b: trait bounds that only serve formatting (`where T: Debug`) are dropped
            hdr = re.sub(r"\bwhere\b.*\{$", "{", hdr, flags=re.S)
            rules["R4"] = rules.get("R4", 0) + 1
        derive = opts.get("derive")
        if derive:
            self.out.emit("#[derive(%s)]\n" % ", ".join(derive.split()), "template", rel, lineno)
        self.out.emit("pub " + hdr + "\n", "source", src=src, byte=s[it.kw].start)
        # fields
        i = o + 1
        dropped, kept = [], []
        while i < c:
            f0 = i
            while src.is_p(i, "#") and src.is_p(i + 1, "["):
                i = src.match[i + 1] + 1
            if src.is_id(i, "pub"):
                i += 1
                if src.is_p(i, "("):
                    i = src.match[i] + 1
            if not src.is_id(i):
                raise LostAnchor("%s: cannot parse fields of %s" % (file, path[-1]))
            name = s[i].text
            if not src.is_p(i + 1, ":"):
                raise LostAnchor("%s: cannot parse field %s of %s" % (file, name, path[-1]))
            j = i + 2
            while j < c and not src.is_p(j, ","):
                if s[j].text == "<":
                    # generic args: skip to matching '>' accounting nesting
                    depth = 0
                    while j < c:
                        if s[j].text == "<":
                            depth += 1
                        elif s[j].text == ">" and not src.is_p(j - 1, "-"):
                            depth -= 1
                            if depth == 0:
                                break
                        j = src.skip_group(j) if s[j].text in "([{" else j + 1
                    j += 1
                    continue
                j = src.skip_group(j)
            ty = src.text[s[i + 2].start:s[j - 1].end]
            if keep == ["*"] or name in keep:
                if name in retarget:
                    ty = retarget[name]
                    rules["R9"] += 1
                self.out.emit("    pub %s: %s,\n" % (name, ty), "source", src=src, byte=s[i].start)
                kept.append(name)
                rules["R3"] += 1
            else:
                dropped.append(name)
                rules["R9"] += 1
            i = j + 1
            _ = f0
        for k in keep:
            if k != "*" and k not in kept:
                raise LostAnchor("%s: struct %s has no field %s" % (file, path[-1], k))
        self.out.emit("}\n\n", "template", rel, lineno)
        self.items.append(self.item_meta(src, file, path, it, rules,
                                         {"fields_kept": kept, "fields_dropped": dropped,
                                          "fields_retargeted": retarget}))

    def do_impl_open(self, arg, rel, lineno):
        parts, opts = split_target(arg)
        file = parts[0]
        hdr = "::".join(parts[1:]).strip() if len(parts) > 2 else parts[1]
        src = load_source(self.repo, file)
        it, _ = rustlex.find_item(src, [hdr], first_ok=True)
        if it is None:
            raise LostAnchor("%s :: %s not found" % (file, hdr))
        s = src.sig
        text = src.text[s[it.kw].start:s[it.body_open].end]
        is_trait = bool(re.search(r"\bfor\b", it.header))
        if "as" in opts:
            text = opts["as"] + " {"
        self.out.emit(text + "\n", "source", src=src, byte=s[it.kw].start)
        self.cur_impl = (file, hdr, is_trait)
        # copy associated types (type Error = X;) for trait impls
        if is_trait and "as" not in opts:
            for sub in rustlex.parse_items(src, it.body_open + 1, src.match[it.body_open]):
                if sub.kind == "type":
                    self.out.emit("    " + src.text[s[sub.kw].start:s[sub.last].end] + "\n",
                                  "source", src=src, byte=s[sub.kw].start)

    # -- traits ----------------------------------------------------------------------------
    def do_trait_open(self, arg, rel, lineno):
        parts, opts = split_target(arg)
        file = parts[0]
        name = parts[1]
        if not name.startswith("trait "):
            name = "trait " + name
        src = load_source(self.repo, file)
        it, _ = rustlex.find_item(src, [name])
        if it is None or it.body_open is None:
            raise LostAnchor("%s :: %s not found" % (file, name))
        s = src.sig
        text = src.text[s[it.kw].start:s[it.body_open].end]
        rules = {"R3": 1}
        if opts.get("flags", "") == "no-supertraits":
            # R4b: marker / formatting supertraits (Debug + Send + Sync) are dropped
            text = re.sub(r":[^{]*\{$", " {", text.strip())
            rules["R4"] = 1
        self.out.emit("pub " + text + "\n", "source", src=src, byte=s[it.kw].start)
        for sub in rustlex.parse_items(src, it.body_open + 1, src.match[it.body_open]):
            if sub.kind == "type":
                self.out.emit("    " + src.text[s[sub.kw].start:s[sub.last].end] + "\n",
                              "source", src=src, byte=s[sub.kw].start)
        self.cur_trait = (file, name, it)
        self.items.append(self.item_meta(src, file, [name], it, rules))

    def do_trait_fn(self, arg, body, rel, lineno):
        if getattr(self, "cur_trait", None) is None:
            raise SpecError("%s:%d: //@tfn outside //@trait" % (rel, lineno))
        file, tname, tit = self.cur_trait
        parts, opts = split_target(arg)
        src = load_source(self.repo, file)
        s = src.sig
        subs = rustlex.parse_items(src, tit.body_open + 1, src.match[tit.body_open])
        m = [x for x in subs if x.kind == "fn" and x.name == parts[0]]
        if len(m) != 1:
            raise LostAnchor("%s :: %s :: fn %s not found" % (file, tname, parts[0]))
        it = m[0]
        end = it.body_open if it.body_open is not None else it.last
        k = it.kw + 2
        while k < end and not src.is_p(k, "("):
            k += 1
        pclose = src.match[k]
        ed = Edits(src.text, (s[it.kw].start, s[end].start))
        if src.is_p(pclose + 1, "-") and src.is_p(pclose + 2, ">"):
            r0 = pclose + 3
            ed.insert(s[r0].start, "(%s: " % opts.get("ret", "r"), 2)
            ed.insert(s[end - 1].end, ")", 2)
        self.emit_chunks(ed.render(), src)
        self.out.emit("\n" + "\n".join(body) + "\n;\n", "template", rel, lineno + 1)

    # -- functions -------------------------------------------------------------------------
    def do_fn(self, arg, sections, rel, lineno):
        src, file, path, opts = self.locate(arg)
        if not path[-1].startswith("fn "):
            path[-1] = "fn " + path[-1]
        try:
            it, chain = rustlex.find_item(src, path)
        except LexError as e:
            raise LostAnchor(str(e))
        if it is None:
            raise LostAnchor("%s :: %s not found" % (file, " :: ".join(path)))
        if it.body_open is None:
            raise LostAnchor("%s :: %s has no body" % (file, " :: ".join(path)))
        s = src.sig
        in_trait_impl = any(re.search(r"\bfor\b", c.header or "") for c in chain if c.kind == "impl")
        flags = opts.get("flags", "").split()
        start = s[it.start_nonattr].start
        end = s[it.last].end
        ed = Edits(src.text, (start, end))
        rules = {}
        if it.first != it.start_nonattr:
            rules["R4"] = 1
        # R3 visibility
        if in_trait_impl or "nopub" in flags:
            if it.vis:
                ed.replace(s[it.vis[0]].start, s[it.vis[1] - 1].end, "", 3)
        else:
            if it.vis:
                ed.replace(s[it.vis[0]].start, s[it.vis[1] - 1].end, "pub", 3)
            else:
                ed.insert(start, "pub ", 3)
            rules["R3"] = 1
        # signature: find params and return type
        k = it.kw + 1  # name
        j = k + 1
        # generics
        if src.is_p(j, "<"):
            depth = 0
            while True:
                if s[j].text == "<":
                    depth += 1
                elif s[j].text == ">" and not src.is_p(j - 1, "-"):
                    depth -= 1
                    if depth == 0:
                        break
                j += 1
            j += 1
        if not src.is_p(j, "("):
            raise LostAnchor("%s: cannot parse signature of %s" % (file, path[-1]))
        pclose = src.match[j]
        sig_text = re.sub(r"\s+", " ", src.text[s[it.kw].start:s[it.body_open].start]).strip()
        ret = opts.get("ret", "r")
        if src.is_p(pclose + 1, "-") and src.is_p(pclose + 2, ">"):
            r0 = pclose + 3
            r1 = r0
            while r1 < it.body_open and not src.is_id(r1, "where"):
                r1 = src.skip_group(r1) if s[r1].text in "([" else r1 + 1
            if ret != "-":
                ed.insert(s[r0].start, "(%s: " % ret, 2)
                ed.insert(s[r1 - 1].end, ")", 2)
                rules["R6"] = 1
        # R3b: associated-type names of a trait impl spelled out (`Self::Key` -> concrete type) when a
        # trait method is verified as an inherent method (directive option `subst:`)
        for pair in opts.get("subst", "").split(";"):
            if "=" not in pair:
                continue
            a, b = [x.strip() for x in pair.split("=", 1)]
            at = a.replace(" ", "").split("::")
            q = it.kw
            sub_end = src.match[it.body_open] if it.body_open is not None and len(at) == 1 and at[0] != "Self" else it.body_open
            while q < sub_end:
                if all(q + 3 * k2 < sub_end and s[q + 3 * k2].text == at[k2] for k2 in range(len(at))) \
                        and all(src.is_p(q + 3 * k2 + 1, ":") and src.is_p(q + 3 * k2 + 2, ":") for k2 in range(len(at) - 1)):
                    ed.replace(s[q].start, s[q + 3 * (len(at) - 1)].end, b, 4)
                    rules["R3"] = rules.get("R3", 0) + 1
                    q += 3 * (len(at) - 1)
                q += 1
        # R9b (`retype: <type text> => <stand-in type>`): a parameter type of the SIGNATURE that this
        # Verus build does not ingest (`Box<dyn Trait<Assoc = T>>`) is retargeted to the stand-in the
        # struct field of that type is retargeted to; matched as text, whitespace-insensitive.
        if "retype" in opts and "=>" in opts["retype"]:
            a, b = [x.strip() for x in opts["retype"].split("=>", 1)]
            rx = re.compile(r"\s*".join(re.escape(tok) for tok in re.findall(r"\w+|[^\w\s]", a)))
            sig_lo, sig_hi = s[it.kw].start, s[it.body_open].start
            if "retype-body" in opts.get("flags", ""):
                # the same type text inside the body (`let v: Vec<Box<dyn ..>> = ..`) is retargeted too
                sig_hi = s[src.match[it.body_open]].end
            hits = list(rx.finditer(src.text, sig_lo, sig_hi))
            if not hits:
                raise LostAnchor("%s: signature of %s has no type %s (retype)" % (file, path[-1], a))
            for h in hits:
                ed.replace(h.start(), h.end(), b, 4)
                rules["R9"] = rules.get("R9", 0) + 1
        # expected signature check
        want_sig = None
        for sec in sections:
            if sec["cmd"] == "sig" and sec["arg"].startswith("expect:"):
                want_sig = sec["arg"][len("expect:"):].strip()
        if want_sig is not None and re.sub(r"\s+", "", want_sig) != re.sub(r"\s+", "", sig_text):
            raise LostAnchor("%s: signature of %s changed: %s" % (file, path[-1], sig_text))
        # body rules
        blo, bhi = it.body_open + 1, src.match[it.body_open]
        apply_body_rules(src, blo, bhi, ed, rules)
        strip_inner_attrs(src, blo, bhi, ed, rules)
        # loops
        loops = []
        i = blo
        while i < bhi:
            t = s[i]
            if t.kind == IDENT and t.text in ("while", "loop", "for") and not src.is_p(i - 1, "."):
                if t.text == "for" and src.is_p(i + 1, "<"):
                    i += 1
                    continue
                j = i + 1
                while j < bhi and not src.is_p(j, "{"):
                    j = src.skip_group(j) if s[j].text in "([" else j + 1
                if j >= bhi:
                    raise LostAnchor("%s: cannot find loop body in %s" % (file, path[-1]))
                loops.append((i, j, src.match[j]))
            i += 1
        # R12 (flag `for-ref-iter`): `for p in &EXPR {` is written `for p in EXPR.iter() {` - std defines
        # `IntoIterator for &HashSet / &Vec` as exactly `self.iter()`; this Verus build has a
        # specification for `iter()` of a HashSet but none for the `&HashSet` form.
        if "for-ref-iter" in flags:
            for (kw, lo_, _hi) in loops:
                if s[kw].text != "for":
                    continue
                q = kw + 1
                while q < lo_ and not src.is_id(q, "in"):
                    q = src.skip_group(q) if s[q].text in "([" else q + 1
                if q + 1 < lo_ and src.is_p(q + 1, "&") and not src.is_id(q + 2, "mut"):
                    ed.replace(s[q + 1].start, s[q + 1].end, "", 4)
                    ed.insert(s[lo_ - 1].end, ".iter()", 4)
                    rules["R12"] = rules.get("R12", 0) + 1
        body_text_start = s[it.body_open].end
        fn_text = src.text
        probe_points = []
        for sec in sections:
            text = "\n".join(sec["lines"]).rstrip()
            if not text.strip() and sec["cmd"] not in ("sig", "desugar-for", "desugar-tuple-assign", "deref-add-assign"):
                continue
            cmd = sec["cmd"]
            sarg = sec["arg"]
            tagged = self.tag(text, rel, sec["line0"])
            if cmd == "sig":
                sig_ins = "\n" + tagged + "\n"
                ed.insert(s[it.body_open].start, sig_ins, 1)
            elif cmd == "loop":
                am = re.match(r"(\d+)(?:\s+iter=(\w+))?", sarg)
                if not am:
                    raise SpecError("%s: bad loop directive %r" % (rel, sarg))
                n = int(am.group(1))
                if n < 1 or n > len(loops):
                    raise LostAnchor("%s: %s has %d loops, directive names loop %d"
                                     % (file, path[-1], len(loops), n))
                kw, lo_, _hi = loops[n - 1]
                if am.group(2):
                    if s[kw].text != "for":
                        raise LostAnchor("%s: loop %d of %s is not a for loop" % (file, n, path[-1]))
                    q = kw + 1
                    while q < lo_ and not src.is_id(q, "in"):
                        q = src.skip_group(q) if s[q].text in "([" else q + 1
                    if q >= lo_:
                        raise LostAnchor("%s: cannot find `in` of for loop %d" % (file, n))
                    ed.insert(s[q].end, " %s:" % am.group(2), 1)
                ed.insert(s[lo_].start, "\n" + tagged + "\n", 1)
            elif cmd == "closure":
                # R11: the n-th closure of the form `(|x| body)` gets a typed header with a contract;
                # its body is kept verbatim (wrapped in braces)
                n = int(sarg.split()[0])
                cl = []
                q = blo
                while q < bhi:
                    if src.is_p(q, "|") and (src.is_p(q - 1, "(") or src.is_p(q - 1, ",")) and src.is_id(q + 1) and src.is_p(q + 2, "|"):
                        cl.append((q, q + 2, None))
                    elif src.is_p(q, "|") and (src.is_p(q - 1, "(") or src.is_p(q - 1, ",")) and src.is_p(q + 1, "(") \
                            and src.is_p(src.match[q + 1] + 1, "|"):
                        # R11 with a tuple pattern `|(a, b)| body`: the typed header names the argument
                        # `vx_arg` and the pattern is bound by `let (a, b) = vx_arg;` in front of the body
                        cl.append((q, src.match[q + 1] + 1, src.text[s[q + 1].start:s[src.match[q + 1]].end]))
                    q += 1
                if n < 1 or n > len(cl):
                    raise LostAnchor("%s: %s has %d simple closures, directive names closure %d" % (file, path[-1], len(cl), n))
                c0, c_end, c_pat = cl[n - 1]
                # closing parenthesis of the call the closure is an argument of
                depth, q = 0, c0 - 1
                while q >= blo:
                    if s[q].kind == PUNCT and s[q].text in ")]}":
                        depth += 1
                    elif s[q].kind == PUNCT and s[q].text in "([{":
                        if depth == 0:
                            break
                        depth -= 1
                    q -= 1
                close = src.match[q]
                ed.replace(s[c0].start, s[c_end].end, text.strip() + " {" + ((" let %s = vx_arg; " % c_pat) if c_pat else ""), 1)
                ed.insert(s[close].start, " }", 1)
                rules["R11"] = rules.get("R11", 0) + 1
            elif cmd == "body-start":
                ed.insert(body_text_start, "\n" + tagged + "\n", 1)
            elif cmd == "desugar-tuple-assign":
                if desugar_tuple_assign(src, blo, bhi, ed, rules) == 0:
                    raise LostAnchor("%s: %s has no destructuring assignment (R15)" % (file, path[-1]))
            elif cmd == "deref-add-assign":
                # R17: `x += &e` on integers is written `x += e` - std defines `impl AddAssign<&u64> for u64`
                # as `*self += *other` (ASSUMED, A-std); this Verus build has no specification for the
                # by-reference form.  Opt-in per function.
                nrw = 0
                q = blo
                while q + 1 < bhi:
                    if src.is_p(q, "+") and src.is_p(q + 1, "=") and s[q].end == s[q + 1].start and src.is_p(q + 2, "&") and not src.is_p(q + 3, "&"):
                        ed.replace(s[q + 2].start, s[q + 2].end, "", 2)
                        nrw += 1
                    elif s[q].kind == PUNCT and s[q].text == "+=" and src.is_p(q + 1, "&"):
                        ed.replace(s[q + 1].start, s[q + 1].end, "", 2)
                        nrw += 1
                    q += 1
                if nrw == 0:
                    raise LostAnchor("%s: %s has no `+= &expr` (R17)" % (file, path[-1]))
                rules["R17"] = rules.get("R17", 0) + nrw
            elif cmd == "desugar-for":
                am = re.match(r"(\d+)\s+(\S+)", sarg)
                n = int(am.group(1))
                if n < 1 or n > len(loops):
                    raise LostAnchor("%s: %s has %d loops, directive names loop %d" % (file, path[-1], len(loops), n))
                desugar_for(src, loops[n - 1], n, am.group(2), ed, rules, "%s :: %s" % (file, path[-1]))
            elif cmd == "body-end":
                ed.insert(s[bhi].start, "\n" + tagged + "\n", 1)
            elif cmd in ("loop-start", "loop-end"):
                n = int(sarg.split()[0])
                if n < 1 or n > len(loops):
                    raise LostAnchor("%s: %s has %d loops, directive names loop %d"
                                     % (file, path[-1], len(loops), n))
                _kw, lo_, hi_ = loops[n - 1]
                if cmd == "loop-start":
                    ed.insert(s[lo_].end, "\n" + tagged + "\n", 1)
                else:
                    ed.insert(s[hi_].start, "\n" + tagged + "\n", 1)
            elif cmd in ("before", "after"):
                am = re.match(r"/(.*)/(?:\s+nth=(\d+))?\s*$", sarg)
                if not am:
                    raise SpecError("%s: bad anchor %r" % (rel, sarg))
                rx = re.compile(am.group(1))
                nth = int(am.group(2) or 1)
                pos = None
                cnt = 0
                off = s[it.body_open].end
                body_end = s[bhi].start
                for lm in re.finditer(r"[^\n]*\n", fn_text[off:body_end]):
                    if rx.search(lm.group(0)):
                        cnt += 1
                        if cnt == nth:
                            pos = off + (lm.start() if cmd == "before" else lm.end())
                            break
                if pos is None:
                    raise LostAnchor("%s: anchor /%s/ (nth=%d) not found in %s"
                                     % (file, am.group(1), nth, path[-1]))
                ed.insert(pos, tagged + "\n", 1)
        if self.probe:
            ed.insert(body_text_start, "\nproof { assert(false); } // VACUITY-PROBE\n", 0)
            for (_kw, lo_, _hi) in loops:
                ed.insert(s[lo_].end, "\nproof { assert(false); } // VACUITY-PROBE\n", 0)
        g0 = self.out.lineno
        if "no-decreases" in flags:
            # termination of this function's loops is NOT verified (reported as an assumption)
            self.out.emit("#[verifier::exec_allows_no_decreases_clause] // ASSUMED: termination not verified\n", "template", rel, lineno)
        self.emit_chunks(ed.render(), src)
        self.out.emit("\n", "template", rel, lineno)
        g1 = self.out.lineno - 1
        qual = (" :: ".join([c.header or c.name for c in chain] + [it.name]))
        meta = self.item_meta(src, file, path, it, rules, {
            "name": it.name,
            "qualified": qual,
            "signature": sig_text,
            "props": opts.get("props", "").split(),
            "gen_lines": [g0, g1],
            "loops": len(loops),
            "spec_file": rel,
            "spec_line": lineno,
        })
        self.functions.append(meta)

    # -- R10: statement-range slice ----------------------------------------------------------
    def do_slice(self, arg, sections, rel, lineno):
        """//@slice <file> :: <fn path> as: <name> from: /re/ to: /re/   followed by
        //@decl (the synthetic signature: parameters = free variables of the slice, return type,
        optional trailing expression) and the usual //@sig ... sections.  The statements between
        the first line matching `from` and the first later line matching `to` (inclusive) are
        copied verbatim into the synthetic function."""
        m = re.match(r"(.*?)\s+as:\s*(\w+)\s+from:\s*/(.*?)/\s+(to|until):\s*/(.*?)/\s*(props:.*)?$", arg)
        if not m:
            raise SpecError("%s:%d: bad //@slice directive" % (rel, lineno))
        target, name, rfrom, to_kind, rto, propstr = m.groups()
        src, file, path, opts = self.locate(target.strip())
        props = (propstr or "").replace("props:", "").split()
        if not path[-1].startswith("fn "):
            path[-1] = "fn " + path[-1]
        it, chain = rustlex.find_item(src, path)
        if it is None or it.body_open is None:
            raise LostAnchor("%s :: %s not found" % (file, " :: ".join(path)))
        s = src.sig
        b0 = s[it.body_open].end
        b1 = s[src.match[it.body_open]].start
        text = src.text
        pos_from = pos_to = None
        off = b0
        for lm in re.finditer(r"[^\n]*\n", text[b0:b1]):
            line = lm.group(0)
            if pos_from is None:
                if re.search(rfrom, line):
                    pos_from = b0 + lm.start()
                    if re.search(rto, line) and rto != rfrom:
                        pos_to = b0 + lm.end()
                        break
            elif re.search(rto, line):
                pos_to = b0 + lm.end()
                break
        if pos_from is not None and pos_to is None and rto == "$END":
            # `to: /$END/`: the slice runs to the end of the function body
            pos_to = text.rfind("\n", b0, b1) + 1
        if pos_from is None or pos_to is None:
            raise LostAnchor("%s: slice anchors /%s/ .. /%s/ not found in %s" % (file, rfrom, rto, path[-1]))
        if to_kind == "until":
            # the matching line belongs to the first statement AFTER the slice: cut at the start of
            # that statement (token following the previous `;`, `{` or `}`)
            k = next(i for i, t in enumerate(s) if t.start >= pos_to) - 1
            # pos_to currently points after the matching line; find a token on that line
            line_start = text.rfind("\n", 0, pos_to - 1) + 1
            k = next(i for i, t in enumerate(s) if t.start >= line_start)
            while k > 0 and not (s[k - 1].kind == PUNCT and s[k - 1].text in (";", "{", "}")):
                k -= 1
            pos_to = text.rfind("\n", 0, s[k].start) + 1
        # token range of the slice
        lo = next(i for i, t in enumerate(s) if t.start >= pos_from)
        hi = next((i for i, t in enumerate(s) if t.start >= pos_to), len(s))
        ed = Edits(text, (pos_from, pos_to))
        rules = {"R10": 1}
        apply_body_rules(src, lo, hi, ed, rules)
        strip_inner_attrs(src, lo, hi, ed, rules)
        decl = sig = ""
        pre = post = ""
        for sec in sections:
            body = "\n".join(sec["lines"]).rstrip()
            if sec["cmd"] == "decl":
                decl = body
            elif sec["cmd"] == "sig":
                sig = body
            elif sec["cmd"] == "body-start":
                pre = body
            elif sec["cmd"] == "body-end":
                post = body
            elif sec["cmd"] == "desugar-tuple-assign":
                if desugar_tuple_assign(src, lo, hi, ed, rules) == 0:
                    raise LostAnchor("%s: slice %s has no destructuring assignment (R15)" % (file, name))
            elif sec["cmd"] in ("loop", "loop-start", "loop-end", "desugar-for"):
                # loops inside the slice, numbered in source order
                sl_loops = []
                q = lo
                while q < hi:
                    if s[q].kind == IDENT and s[q].text in ("while", "loop", "for") and not src.is_p(q - 1, "."):
                        j2 = q + 1
                        while j2 < hi and not src.is_p(j2, "{"):
                            j2 = src.skip_group(j2) if s[j2].text in "([" else j2 + 1
                        if j2 < hi:
                            sl_loops.append((q, j2, src.match[j2]))
                    q += 1
                am = re.match(r"(\d+)(?:\s+iter=(\w+))?", sec["arg"])
                n = int(am.group(1))
                if n < 1 or n > len(sl_loops):
                    raise LostAnchor("%s: slice %s has %d loops, directive names loop %d" % (file, name, len(sl_loops), n))
                kw, lo_, hi_ = sl_loops[n - 1]
                if sec["cmd"] == "desugar-for":
                    desugar_for(src, sl_loops[n - 1], n, sec["arg"].split()[1], ed, rules, "%s :: slice %s" % (file, name))
                elif sec["cmd"] == "loop":
                    if am.group(2):
                        q = kw + 1
                        while q < lo_ and not src.is_id(q, "in"):
                            q = src.skip_group(q) if s[q].text in "([" else q + 1
                        ed.insert(s[q].end, " %s:" % am.group(2), 1)
                    ed.insert(s[lo_].start, "\n" + body + "\n", 1)
                elif sec["cmd"] == "loop-start":
                    ed.insert(s[lo_].end, "\n" + body + "\n", 1)
                else:
                    ed.insert(s[hi_].start, "\n" + body + "\n", 1)
            elif sec["cmd"] in ("before", "after"):
                am = re.match(r"/(.*)/(?:\s+nth=(\d+))?\s*$", sec["arg"])
                rx = re.compile(am.group(1))
                nth = int(am.group(2) or 1)
                ipos = None
                cnt = 0
                for lm in re.finditer(r"[^\n]*\n", text[pos_from:pos_to]):
                    if rx.search(lm.group(0)):
                        cnt += 1
                        if cnt == nth:
                            ipos = pos_from + (lm.start() if sec["cmd"] == "before" else lm.end())
                            break
                if ipos is None:
                    raise LostAnchor("%s: anchor /%s/ (nth=%d) not found in slice %s" % (file, am.group(1), nth, name))
                ed.insert(ipos, body + "\n", 1)
            elif sec["cmd"] == "drop-stmt":
                # R16: every one-line statement of the slice that matches the regex is removed (stated
                # per use: wall-clock statistics - `Instant::now()` / `elapsed()` - that no contract speaks about)
                am = re.match(r"/(.*)/\s*$", sec["arg"])
                rx = re.compile(am.group(1))
                n_dropped = 0
                for lm in re.finditer(r"[^\n]*\n", text[pos_from:pos_to]):
                    ln = lm.group(0)
                    if rx.search(ln):
                        st = ln.strip()
                        if not st.endswith(";") or st.count("{") != st.count("}"):
                            raise SpecError("%s: //@drop-stmt /%s/ matches a line that is not a one-line statement: %r" % (rel, am.group(1), st))
                        ed.replace(pos_from + lm.start(), pos_from + lm.end(), "\n", 1)
                        n_dropped += 1
                if n_dropped == 0:
                    raise LostAnchor("%s: //@drop-stmt /%s/ matches nothing in slice %s" % (file, am.group(1), name))
                rules["R16"] = rules.get("R16", 0) + n_dropped
            elif sec["cmd"] == "closure":
                # R11 inside a slice (same rule as in //@fn)
                n = int(sec["arg"].split()[0])
                cl = []
                q = lo
                while q < hi:
                    if src.is_p(q, "|") and (src.is_p(q - 1, "(") or src.is_p(q - 1, ",")) and src.is_id(q + 1) and src.is_p(q + 2, "|"):
                        cl.append(q)
                    q += 1
                if n > len(cl) and "opt" in sec["arg"].split()[1:]:
                    # `//@closure n opt`: the closure is a detail of how a value is computed, not what the
                    # contract speaks about; code that no longer has it is checked without the header
                    rules["R11-dropped"] = rules.get("R11-dropped", 0) + 1
                    continue
                if n < 1 or n > len(cl):
                    raise LostAnchor("%s: slice %s has %d simple closures, directive names closure %d" % (file, name, len(cl), n))
                c0 = cl[n - 1]
                depth, q = 0, c0 - 1
                while q >= lo:
                    if s[q].kind == PUNCT and s[q].text in ")]}":
                        depth += 1
                    elif s[q].kind == PUNCT and s[q].text in "([{":
                        if depth == 0:
                            break
                        depth -= 1
                    q -= 1
                close = src.match[q]
                ed.replace(s[c0].start, s[c0 + 2].end, body.strip() + " {", 1)
                ed.insert(s[close].start, " }", 1)
                rules["R11"] = rules.get("R11", 0) + 1
            elif sec["cmd"] == "opaque-closure":
                # R13: the n-th ARGUMENT-LESS closure expression of the slice (`|| [-> T] { .. }`) is not
                # ingested; the whole expression is replaced by the text of the section (a call to an
                # ASSUMED stand-in).  Stated per use; only for closures whose body is outside Verus
                # (unsafe raw-pointer access) and whose content the slice's contract does not speak about.
                n = int(sec["arg"].split()[0])
                cl = []
                q = lo
                while q < hi:
                    if src.is_p(q, "|") and src.is_p(q + 1, "|") and s[q].end == s[q + 1].start and (src.is_p(q - 1, "(") or src.is_p(q - 1, ",")):
                        cl.append(q)
                    q += 1
                if n < 1 or n > len(cl):
                    raise LostAnchor("%s: slice %s has %d argument-less closures, directive names closure %d" % (file, name, len(cl), n))
                c0 = cl[n - 1]
                q = c0 + 2
                while q < hi and not src.is_p(q, "{"):
                    q += 1
                if q >= hi:
                    raise LostAnchor("%s: closure %d of slice %s has no block body" % (file, n, name))
                ed.replace(s[c0].start, s[src.match[q]].end, body.strip(), 2)
                rules["R13"] = rules.get("R13", 0) + 1
            else:
                raise SpecError("%s: section %s not supported in //@slice" % (rel, sec["cmd"]))
        if self.probe:
            # vacuity probes at the start of every loop body inside the slice
            q = lo
            while q < hi:
                if s[q].kind == IDENT and s[q].text in ("while", "loop", "for") and not src.is_p(q - 1, "."):
                    j2 = q + 1
                    while j2 < hi and not src.is_p(j2, "{"):
                        j2 = src.skip_group(j2) if s[j2].text in "([" else j2 + 1
                    if j2 < hi:
                        ed.insert(s[j2].end, "\nproof { assert(false); } // VACUITY-PROBE\n", 0)
                q += 1
        if not decl:
            raise SpecError("%s:%d: //@slice needs a //@decl section" % (rel, lineno))
        g0 = self.out.lineno
        self.out.emit("// SLICE (rule R10) of %s :: %s, lines %d-%d; the wrapper signature is synthetic, the statements are verbatim\n"
                      % (file, path[-1], src.line_of(pos_from), src.line_of(pos_to - 1)), "template", rel, lineno)
        self.out.emit(decl.split("=>")[0].rstrip() + "\n" + sig + "\n{\n", "template", rel, lineno)
        # the vacuity probe goes behind the body-start text (which may hold headers such as `hide(..)`
        # that must come first) - unless that text ends in an open statement (`let r0 =`) that the
        # slice itself completes
        probe_first = pre.rstrip().endswith("=")
        if self.probe and probe_first:
            self.out.emit("proof { assert(false); } // VACUITY-PROBE\n", "inserted")
        self.out.emit(pre + "\n", "template", rel, lineno)
        if self.probe and not probe_first:
            self.out.emit("proof { assert(false); } // VACUITY-PROBE\n", "inserted")
        self.emit_chunks(ed.render(), src)
        tail = decl.split("=>")[1].strip() if "=>" in decl else ""
        self.out.emit(post + "\n" + tail + "\n}\n\n", "template", rel, lineno)
        g1 = self.out.lineno - 1
        stext = text[pos_from:pos_to]
        self.functions.append({
            "item": " :: ".join(path) + " [slice %s]" % name, "file": file,
            "lines": [src.line_of(pos_from), src.line_of(pos_to - 1)],
            "sha256": hashlib.sha256(stext.encode()).hexdigest(), "rules": rules,
            "name": name, "qualified": name, "signature": decl.split("\n")[0], "props": props,
            "gen_lines": [g0, g1], "loops": 0, "spec_file": rel, "spec_line": lineno,
        })

    def tag(self, text, rel, line0):
        return text

    # -- finish ----------------------------------------------------------------------------
    def result(self):
        self.out.finish()
        return "\n".join(self.out.lines) + "\n"


def generate(spec_path, repo, out_path, probe=False):
    g = Generator(repo, probe=probe)
    g.process_file(spec_path)
    text = g.result()
    os.makedirs(os.path.dirname(out_path), exist_ok=True)
    with open(out_path, "w", encoding="utf-8") as f:
        f.write(text)
    lines = text.split("\n")
    probes = [i + 1 for i, l in enumerate(lines) if "VACUITY-PROBE" in l]
    meta = {
        "spec": os.path.relpath(spec_path, VERIF),
        "generated": out_path,
        "functions": g.functions,
        "items": g.items,
        "includes": g.includes,
        "origin": g.out.origin,
        "probe_lines": probes,
        "n_lines": len(lines),
    }
    return meta


if __name__ == "__main__":
    import argparse
    ap = argparse.ArgumentParser()
    ap.add_argument("spec")
    ap.add_argument("--repo", default="/repo")
    ap.add_argument("--out", default=None)
    ap.add_argument("--probe", action="store_true")
    a = ap.parse_args()
    out = a.out or os.path.join(VERIF, "build", os.path.basename(a.spec).replace(".vspec", ".rs"))
    try:
        m = generate(os.path.abspath(a.spec), a.repo, out, a.probe)
    except LostAnchor as e:
        print("LOST-ANCHOR:", e)
        sys.exit(2)
    print(json.dumps({k: v for k, v in m.items() if k != "origin"}, indent=1))
