#!/usr/bin/env python3
"""Copies confirmed seeded changes from /tmp/seed-<P>/<m>/ into /verif/seeded/<P>-<m>/ (developer aid)."""
import json, os, re, shutil, sys
VERIF = os.path.dirname(os.path.dirname(os.path.abspath(__file__)))
for d in sorted(os.listdir("/tmp")):
    m = re.match(r"seed(\d?)-(C\d\d)$", d)
    if not m:
        continue
    prop = m.group(2)
    rnd = ("r" + m.group(1)) if m.group(1) else ""
    for mm in ("m1", "m2"):
        src = os.path.join("/tmp", d, mm)
        if not os.path.exists(os.path.join(src, "patch.diff")) or not os.path.exists(os.path.join(src, "confirm.txt")):
            continue
        conf = open(os.path.join(src, "confirm.txt")).read()
        mo = re.search(r"demo_without_patch_rc=(\d+) demo_with_patch_rc=(\d+) suite:(.*)", conf, re.S)
        if not mo:
            continue
        rc_clean, rc_mut, suite = int(mo.group(1)), int(mo.group(2)), mo.group(3).strip()
        ok = rc_clean == 0 and rc_mut != 0 and re.search(r"(\d+) tests run", suite) and not re.search(r"FAIL.*raindb (?!fs::fs_disk)", suite)
        dst = os.path.join(VERIF, "seeded", "%s-%s%s" % (prop, rnd, mm))
        os.makedirs(dst, exist_ok=True)
        for f in ("patch.diff", "demo.diff", "demo_cmd.txt", "notes.md"):
            if os.path.exists(os.path.join(src, f)):
                shutil.copy(os.path.join(src, f), os.path.join(dst, f))
        notes = open(os.path.join(src, "notes.md")).read() if os.path.exists(os.path.join(src, "notes.md")) else ""
        files = re.findall(r"^\+\+\+ b/(\S+)", open(os.path.join(src, "patch.diff")).read(), re.M)
        meta_path = os.path.join(dst, "meta.json")
        meta = json.load(open(meta_path)) if os.path.exists(meta_path) else {}
        meta.update({
            "id": "%s-%s%s" % (prop, rnd, mm),
            "breaks_property": prop,
            "files_changed": files,
            "needs_to_manifest": meta.get("needs_to_manifest") or "see notes.md (written by the independent sub-agent that produced the change)",
            "origin": "fresh sub-agent given only the property text and its own scratch worktree (nothing from /verif)",
            "confirmed_by_me": {
                "how": "tools/confirm_seed.sh in a scratch worktree of /repo HEAD: demo.diff applied -> demo_cmd passes; patch.diff applied -> demo_cmd fails; demo removed -> full suite (cargo nextest run --workspace --test-threads 8 --offline)",
                "demo_rc_without_patch": rc_clean, "demo_rc_with_patch": rc_mut, "suite_with_patch": suite[:400],
                "confirmed": bool(ok),
            },
        })
        json.dump(meta, open(meta_path, "w"), indent=1)
        print(prop, mm, "confirmed" if ok else "NOT-CONFIRMED", files)
