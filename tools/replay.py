#!/usr/bin/env python3
"""Replay of concrete inputs on the real code + counterexample search (DESIGN.md 2.4/2.5).

A scratch copy of /repo's working tree is made under /var/tmp, the cfg-guarded module
/verif/replay/api.rs is appended to the COPY's src/lib.rs, and the small binary crate
/verif/replay is built against it.  /repo itself is never modified.  The scratch copy is removed
before returning; the cargo target directory lives in /verif/build/replay-target (git-ignored).
"""
import json
import re
import os
import shutil
import subprocess
import sys

HERE = os.path.dirname(os.path.abspath(__file__))
VERIF = os.path.dirname(HERE)


class ReplayBuild:
    def __init__(self, repo):
        self.repo = repo
        self.dir = "/var/tmp/raindb-verif-replay.%d" % os.getpid()
        self.bin = None

    def __enter__(self):
        shutil.rmtree(self.dir, ignore_errors=True)
        os.makedirs(self.dir)
        dst = os.path.join(self.dir, "repo")
        shutil.copytree(self.repo, dst, ignore=shutil.ignore_patterns("target", ".git"), symlinks=True)
        # appended to src/db.rs so that the module is a child of `db` and can use its test hooks
        with open(os.path.join(dst, "src", "db.rs"), "a") as f:
            f.write('\n#[cfg(raindb_verif)]\n#[path = "%s/replay/api.rs"]\npub mod verif_api;\n' % VERIF)
        # the copy must not be a workspace member of anything else
        rp = os.path.join(self.dir, "replay")
        shutil.copytree(os.path.join(VERIF, "replay"), rp)
        shutil.copy(os.path.join(self.repo, "Cargo.lock"), os.path.join(rp, "Cargo.lock"))
        env = dict(os.environ)
        env["RUSTFLAGS"] = (env.get("RUSTFLAGS", "") + " --cfg raindb_verif -A warnings").strip()
        env["CARGO_NET_OFFLINE"] = "true"
        env["CARGO_TARGET_DIR"] = os.path.join(VERIF, "build", "replay-target")
        # the target directory is shared (dependencies are built once); builds are serialised and
        # the binary is copied out so that concurrent checks of different trees cannot mix binaries
        import fcntl
        os.makedirs(env["CARGO_TARGET_DIR"], exist_ok=True)
        with open(os.path.join(env["CARGO_TARGET_DIR"], ".verif-lock"), "w") as lk:
            fcntl.flock(lk, fcntl.LOCK_EX)
            p = subprocess.run(["cargo", "build", "--offline", "-q"], cwd=rp, env=env, capture_output=True, text=True)
            if p.returncode != 0:
                # lock file may not fit the tiny crate: retry without it
                os.remove(os.path.join(rp, "Cargo.lock"))
                p = subprocess.run(["cargo", "build", "--offline", "-q"], cwd=rp, env=env, capture_output=True, text=True)
            if p.returncode != 0:
                raise RuntimeError("replay crate does not build against the current tree:\n" + p.stderr[-3000:])
            self.bin = os.path.join(self.dir, "verif-replay")
            shutil.copy(os.path.join(env["CARGO_TARGET_DIR"], "debug", "verif-replay"), self.bin)
        return self

    def run(self, text):
        path = os.path.join(self.dir, "input.txt")
        with open(path, "w") as f:
            f.write(text)
        # an input that gets no answer (the real code hangs, e.g. a writer waiting for a background
        # thread that died) is NOT judged by a bounded family: no VIOLATION, no pass - the line
        # below is neither `REPLAY violated` nor `REPLAY holds`.  Whole-history oracles that re-run
        # a history once per file-system call get the long limit.
        long_oracle = any(text.startswith("oracle " + o) for o in ("faults", "crash"))
        limit = 600 if long_oracle else 60
        try:
            p = subprocess.run([self.bin, path], capture_output=True, text=True, timeout=limit)
        except subprocess.TimeoutExpired:
            return "REPLAY no-answer within %d s (not judged)" % limit
        out = (p.stdout + p.stderr).strip()
        if p.returncode != 0 and "REPLAY violated" not in out and "REPLAY holds" not in out:
            # the replay program itself died (a panic inside the database under a seeded change, or a
            # defect of the oracle): not judged - and said so, instead of passing silently
            return "REPLAY crashed rc=%d (not judged): %s" % (p.returncode, out[:300].replace("\n", " | "))
        return out

    def __exit__(self, *a):
        shutil.rmtree(self.dir, ignore_errors=True)


def cex_to_text(cex):
    lines = ["oracle %s" % cex["oracle"]]
    for op in cex.get("ops", []):
        lines.append("op " + " ".join(str(x) for x in op))
    for fl in cex.get("files", []):
        lines.append("file " + " ".join(str(x) for x in fl))
    for op in cex.get("db", []):
        lines.append("db " + " ".join(str(x) for x in op))
    for b in cex.get("bloom", []):
        lines.append("bloom " + " ".join(str(x) for x in b))
    for b in cex.get("bytes", []):
        lines.append("bytes " + b)
    for e in cex.get("encode", []):
        lines.append("encode " + " ".join(str(x) for x in e))
    if "moves" in cex:
        lines.append("moves %s" % cex["moves"])
    if cex.get("reuse"):
        lines.append("reuse 1")
    if "modes" in cex:
        lines.append("modes " + " ".join(cex["modes"]))
    if "checks" in cex:
        lines.append("checks " + " ".join(cex["checks"]))
    if "fault" in cex:
        lines.append("fault %d %s" % (cex["fault"][0], cex["fault"][1]))
    if "block_size" in cex:
        lines.append("block_size %d" % cex["block_size"])
    for e in cex.get("entries", []):
        lines.append("entry " + " ".join(str(x) for x in e))
    for l in cex.get("lookups", []):
        lines.append("lookup " + " ".join(str(x) for x in l))
    return "\n".join(lines) + "\n"


# ---------------------------------------------------------------------------------------------
# counterexample families, keyed by obligation prefix (search only PRODUCES a replay; it never
# changes a verdict)
# ---------------------------------------------------------------------------------------------
def h(b):
    return b.hex() if b else "-"


def family_log_reader(seed):
    B = 32768
    fam = []
    # writer stopped between fragments, later writer appended (C12 last sentence)
    fam.append({"oracle": "log_reader", "ops": [["append", h(b"r0")], ["emit", 1, h(b"a")], ["reopen"], ["append", h(b"b")], ["append", h(b"c")]]})
    fam.append({"oracle": "log_reader", "ops": [["emit", 1, h(b"a")], ["emit", 0, h(b"b")]]})
    fam.append({"oracle": "log_reader", "ops": [["emit", 1, h(b"a")], ["emit", 1, h(b"b")], ["emit", 3, h(b"c")]]})
    fam.append({"oracle": "log_reader", "ops": [["emit", 2, h(b"m")], ["emit", 0, h(b"b")]]})
    fam.append({"oracle": "log_reader", "ops": [["emit", 3, h(b"l")], ["append", h(b"x")]]})
    # damaged fragment followed by intact ones in the same and in the next block
    fam.append({"oracle": "log_reader", "ops": [["append", "gen", 1000, 1], ["append", h(b"second")], ["append", "gen", B, 7], ["append", h(b"tail")], ["flip", 10, 255]]})
    fam.append({"oracle": "log_reader", "ops": [["append", "gen", B - 7 - 7, 3], ["append", h(b"")], ["append", h(b"after")], ["flip", 9, 1]]})
    for k in range(3):
        n = (seed * 7919 + k * 104729) % (2 * B)
        fam.append({"oracle": "log_reader", "ops": [["append", "gen", n, k], ["append", h(b"z")], ["append", "gen", B, 9], ["flip", 8 + (seed + k) % 50, 1 + k], ["append", h(b"end")]]})
    # plain round trips around the block boundary, with reopen and truncation
    for d in range(-9, 3):
        n = B - 7 + d
        fam.append({"oracle": "log_reader", "ops": [["append", "gen", n, 5], ["reopen"], ["append", h(b"q")], ["append", "gen", 3 * B, 2]]})
        fam.append({"oracle": "log_reader", "ops": [["append", "gen", n, 5], ["append", h(b"qq")], ["truncate", n + 3]]})
    # a reader that is opened between two writer sessions and NOT drained (recovery that stops early,
    # an external tool): the writer reopened for appending still continues at the end of the file
    # (seeded change C12-r8m2 sits in the in-memory file system's append re-open)
    for k in (1, 2):
        fam.append({"oracle": "log_reader", "ops": [["append", h(b"first")], ["append", h(b"second")], ["append", "gen", 100 + seed % 50, 4], ["peek", k], ["append", h(b"fourth")], ["peek", 1], ["append", h(b"fifth")]]})
    return fam


def family_key_range(seed):
    a = lambda s: s.encode().hex()
    return [
        {"oracle": "key_range", "files": [[a("a"), 5, a("c"), 4], [a("b"), 3, a("z"), 2]]},
        {"oracle": "key_range", "files": [[a("m"), 5, a("p"), 4], [a("a"), 3, a("b"), 2]]},
        {"oracle": "key_range", "files": [[a("a"), 9, a("z"), 1], [a("a"), 8, a("b"), 2], [a("c"), 7, a("d"), 3]]},
    ]


def family_table_get(seed):
    a = lambda s: s.encode().hex() if s else "-"
    fam = []
    # one-entry file, bound below the only version (index seek runs off the end)
    fam.append({"oracle": "table_get", "block_size": 4096, "entries": [[a("k"), 10, 1, a("v10")]], "lookups": [[a("k"), 5], [a("k"), 10], [a("k"), 11], [a("j"), 99], [a("l"), 99]]})
    # many versions of one key crossing block boundaries, tombstones, shortened separators
    ents = []
    for u in ["apple", "cherry", "k", "zz"]:
        for s_ in (60, 50, 40, 30):
            ents.append([a(u), s_, 0 if (u == "cherry" and s_ == 50) else 1, a("%s@%d" % (u, s_) + "x" * 40)])
    looks = [[a(u), s_] for u in ["apple", "avocado", "cherry", "k", "zz", "zzz", "a"] for s_ in (70, 60, 55, 45, 30, 29, 1)]
    for bs in (1, 64, 150, 4096):
        fam.append({"oracle": "table_get", "block_size": bs, "entries": ents, "lookups": looks})
    return fam


def family_db_snapshot(seed):
    a = lambda s: s.encode().hex() if s else "-"
    base = [["put", a("a"), a("1")], ["put", a("m"), a("2")], ["put", a("z"), a("3")], ["flush"]]
    return [
        {"oracle": "db_history", "db": base + [["reopen", "fresh"], ["reopen", "fresh"]]},
        {"oracle": "db_history", "db": base + [["put", a("b"), a("4")], ["flush"], ["reopen", "fresh"], ["reopen", "reuse"], ["compact"]]},
    ]


def family_db_views(seed):
    """Whole-database histories with snapshots, flushes and compactions; every view is read back
    through get and through the iterator in both directions (oracle db_views)."""
    a = lambda s: s.encode().hex() if s else "-"
    P = lambda k, v: ["put", a(k), a(v)]
    D = lambda k: ["delete", a(k)]
    S, F, C = ["snapshot"], ["flush"], ["compact"]
    B = lambda *kv: ["batch"] + [a(x) if x != "!" else "!" for x in kv]
    R = lambda mode: ["reopen", mode]
    I, IP = ["pin"], ["pin", "positioned"]
    fam = []
    # iterators created before flushes / compactions / deletions of the files they pin, read at the end
    fam.append([P("apple", "1"), F, C, P("xylophone", "1"), F, C, P("fig", "1"), F, C, P("mango", "1"), F, C, I, IP,
                P("apple", "2"), D("fig"), P("zebra", "1"), F, C, P("mango", "3"), F, C])
    fam.append([P("a", "1"), P("b", "1"), F, I, D("a"), P("c", "1"), F, IP, C, P("b", "2"), F, C, I, D("c"), F, C])
    # recovery: a multi-operation batch is the last WAL record, then the same keys are rewritten
    fam.append([B("a", "a1", "b", "b1", "c", "c1"), R("reuse"), P("b", "b2"), P("c", "c2"), D("a"), R("fresh"), P("a", "a3")])
    fam.append([B("a", "a1", "b", "b1", "c", "c1"), R("reuse"), P("c", "c2")])
    fam.append([B("a", "a1", "b", "b1", "c", "c1", "d", "d1"), R("fresh"), P("d", "d2"), D("c"), P("a", "a2")])
    fam.append([P("x", "0"), B("a", "1", "b", "!", "c", "3", "a", "4"), R("fresh"), B("c", "!", "b", "5"), S, P("c", "6"), R("reuse"), P("b", "7")])
    fam.append([B("k", "1", "k", "2", "k", "!", "k", "3"), F, B("k", "4", "j", "1"), R("fresh"), D("k"), F, C, R("reuse"), P("k", "5")])
    # a tombstone exactly at the oldest snapshot, older value below it, then compaction
    fam.append([P("k", "v1"), D("k"), S, F, C, P("j", "x"), F, C])
    fam.append([P("k", "v1"), S, D("k"), S, P("k", "v2"), S, F, C])
    fam.append([P("a", "1"), P("b", "2"), P("c", "3"), F, D("b"), S, P("b", "4"), F, C, D("a"), F, C])
    # deleted and overwritten keys between visible ones, in memtable and files, walked both ways
    fam.append([P("a", "1"), P("b", "2"), P("c", "3"), P("d", "4"), D("b"), P("c", "33"), S, D("c"), P("e", "5"), D("a")])
    fam.append([P("a", "1"), P("b", "2"), F, P("c", "3"), D("b"), F, P("b", "5"), D("c"), S, P("d", "1"), D("d"), P("c", "9")])
    fam.append([P("b", "1"), F, C, P("a", "1"), F, P("c", "1"), F, D("b"), F, S, P("b", "2"), C])
    fam.append([P("a", "1"), D("a"), P("a", "2"), D("a"), P("b", "1"), P("a", "3"), S, D("a"), D("b")])
    # deeper levels: data pushed down by repeated compaction, then shadowed / deleted above
    fam.append([P("a", "old"), P("m", "old"), P("z", "old"), F, C, P("m", "new"), F, S, D("m"), F, C, D("a"), F, S, C])
    # F11 (fixed): a compaction whose level inputs are EXPANDED must keep the boundary file of its
    # parent-level inputs - level 3 = [a..b5] [b7..DEL(k)] [k@1] (the two versions of k straddle two
    # files because a snapshot was alive when they were written and the output was cut behind the
    # large value), level 2 = [a2..b8] [c..c2]; compacting only [c..c2] of level 2 expands to
    # {[a2..b8], [c..c2]} x {[a..b5], [b7..DEL(k)]} - and, before the repair, left [k@1] behind
    # while the tombstone was dropped as "base level": the deleted key came back.
    CL = lambda level, lo, hi: ["compact_level", str(level), a(lo) if lo is not None else "-", a(hi) if hi is not None else "-"]
    REL, SMALL = ["release"], ["reopen_small", "4096"]
    st = 12345
    fill = bytearray()
    for _ in range(5000):
        st = (st * 1664525 + 1013904223) & 0xffffffff
        fill.append(st >> 24)
    PF = lambda k: ["put", a(k), bytes(fill).hex()]
    fam.append([SMALL, P("k", "old"), S, PF("b7"), D("k"), F, CL(2, None, None), REL,
                P("a", "x"), P("b5", "x"), F, CL(2, "a", "b5"),
                P("a2", "y"), P("b8", "y"), F, P("c", "y"), P("c2", "y"), F, CL(2, "c", "c2")])
    # F12 (fixed): a damaged manifest record must not be skipped silently - two flushes (two version
    # edits), then one byte inside the last record of the manifest is altered: `open` has to refuse
    # the file; before the repair it opened and the newer value of `b` was gone / the older one back
    DM = lambda back, mask: ["damage_manifest", str(back), str(mask)]
    fam.append([P("a", "1"), P("b", "old"), F, P("b", "new"), F, DM(3, 64), P("c", "1")])
    fam.append([P("a", "1"), F, C, P("b", "2"), F, C, P("a", "3"), F, DM(20 + seed % 7, 1 << (seed % 8))])
    # F14 (fixed): a seek-triggered TRIVIAL MOVE must release the version it was computed from -
    # level 2 = [a..z], level 0 = [a..c] (level 1 emptied); 100 lookups of the absent key `b` consult
    # both files and charge the level-0 file, which is then moved to level 1; a later compaction
    # makes both files obsolete; with nothing pinning an older version the directory must hold the
    # current version's files only (before the repair the pre-move version stayed in the version
    # list for the life of the process, and so did the two dead files on disk)
    GM, SL, DC = (lambda k, n: ["get_many", a(k), str(n)]), (lambda ms: ["sleep", str(ms)]), ["dircheck"]
    fam.append([P("a", "1"), P("z", "1"), F, P("a", "2"), P("z", "2"), F, P("a", "3"), P("c", "3"), F, CL(1, "a", "z"),
                GM("b", 100), SL(1200), CL(1, "a", "z"), SL(300), DC])
    fam.append([P("a", "1"), P("b", "1"), F, S, P("a", "2"), F, C, I, P("c", "1"), F, C, DC])
    # pseudo-random histories over a small key space
    x = (seed * 2654435761 + 12345) & 0xffffffff
    def rnd(n):
        nonlocal x
        x = (x * 1103515245 + 12345) & 0x7fffffff
        return (x >> 8) % n
    keys = ["a", "ab", "b", "c", "d", "e", ""]
    for h_ in range(10):
        ops = []
        for i in range(30 + 5 * h_):
            r = rnd(20)
            k = keys[rnd(len(keys) - (0 if h_ % 3 == 0 else 1))]
            if r < 9:
                ops.append(P(k, "v%d" % i))
            elif r < 13:
                ops.append(D(k))
            elif r < 14:
                ops.append(B(k, "b%d" % i, keys[rnd(len(keys) - 1)], "!", keys[rnd(len(keys) - 1)], "c%d" % i) if h_ % 2 else R("reuse" if i % 2 else "fresh"))
            elif r < 16:
                ops.append(S if rnd(3) else (I if rnd(2) else IP))
            elif r < 19:
                ops.append(F)
            else:
                ops.append(C)
        ops += [F, C]
        fam.append(ops)
    # C11, second sentence: every history ends with a directory check - snapshots and pinned
    # iterators are released, one more (empty) flush gives the garbage collection its occasion,
    # then the table files on disk must be exactly those of the current version
    for ops in fam:
        if ops[-1] != DC and not any(o[0] == "damage_manifest" for o in ops):
            ops.append(DC)
    moves = ["nnpnppnnnpnpp", "npnpnnppnnnnppppp", "nnnnnnpppppp"]
    return [{"oracle": "db_views", "db": ops, "moves": moves[i % len(moves)]} for i, ops in enumerate(fam)]


def family_faults(seed):
    """C08 bounded stand-in: whole-database histories on a file system that fails ONE counted call
    (create_file, open_file, rename, remove_file, get_file_size, write/append) once or from then on;
    every position of every history is tried (oracle faults)."""
    a = lambda s: s.encode().hex() if s else "-"
    P = lambda k, v: ["put", a(k), a(v)]
    D = lambda k: ["delete", a(k)]
    F, C = ["flush"], ["compact"]
    B = lambda *kv: ["batch"] + [a(x) if x != "!" else "!" for x in kv]
    R = lambda mode: ["reopen", mode]
    fam = [
        (False, [P("a", "1"), P("b", "1"), F, P("a", "2"), D("b"), P("c", "1"), F, P("d", "1")]),
        (False, [P("a", "1"), P("b", "1"), F, P("a", "2"), D("b"), F, C, P("c", "1"), R("fresh"), P("d", "1"), B("a", "3", "e", "5", "c", "!"), F, C]),
        (True, [P("a", "1"), B("b", "1", "c", "1"), R("reuse"), P("a", "2"), F, P("d", "1"), R("reuse"), D("a"), C, P("e", "1")]),
    ]
    x = (seed * 2246822519 + 374761393) & 0xffffffff
    def rnd(n):
        nonlocal x
        x = (x * 1103515245 + 12345) & 0x7fffffff
        return (x >> 8) % n
    keys = ["a", "b", "c", "d"]
    for h_ in range(2):
        ops = []
        for i in range(10 + 4 * h_):
            r = rnd(20)
            k = keys[rnd(len(keys))]
            if r < 9:
                ops.append(P(k, "v%d" % i))
            elif r < 12:
                ops.append(D(k))
            elif r < 14:
                ops.append(B(k, "b%d" % i, keys[rnd(len(keys))], "!"))
            elif r < 17:
                ops.append(F)
            elif r < 18:
                ops.append(C)
            else:
                ops.append(R("x"))
        fam.append((bool((seed + h_) % 2), ops))
    return [{"oracle": "faults", "db": ops, "reuse": reuse, "modes": ["transient", "sticky", "torn_once"]} for reuse, ops in fam]


def family_crash(seed):
    """C02 / C16 bounded stand-in: the histories of family_faults plus records that span several
    32 KiB log blocks; every counted file-system call is the crash point: it and all later calls
    fail, and if it is a write it leaves nothing / 1 byte / half / all but one byte of its buffer
    behind (a torn write).  Then the 'process restarts': the fault is cleared, the database is
    reopened, read, written once more and reopened again."""
    a = lambda s: s.encode().hex() if s else "-"
    P = lambda k, v: ["put", a(k), a(v)]
    F, C = ["flush"], ["compact"]
    R = lambda mode: ["reopen", mode]
    big = "x" * 70000
    fam = [dict(c) for c in family_faults(seed)]  # (the modes are replaced below)
    fam.append({"oracle": "faults", "db": [P("a", "1"), P("b", big), P("c", "1"), R("x"), P("d", big[:40000]), P("a", "2")], "reuse": True})
    fam.append({"oracle": "faults", "db": [P("a", big), F, P("b", "1"), R("x"), P("c", "1"), C, P("d", "1")], "reuse": bool(seed % 2)})
    # crash leftovers (orphan table, temp file, superseded manifest) dropped into the directory while
    # the database is closed, with a non-empty reusable log so that recovery has nothing to install
    fam.append({"oracle": "faults", "db": [P("a", "1"), P("b", "1"), F, P("c", "1"), ["plant"], P("d", "1")], "reuse": True})
    fam.append({"oracle": "faults", "db": [P("a", "1"), ["plant"], P("b", "1"), F, C], "reuse": False})
    for c in fam:
        c["modes"] = ["sticky", "torn1", "torn", "tornm1"]
        c["checks"] = ["further"]
    return fam


def family_crash_dir(seed):
    """C11 (second sentence) bounded stand-in: the crash family, and at the end of every run the
    database directory is compared with the current version (no orphan table file, no temp file, no
    superseded manifest; write-ahead logs are not judged)."""
    fam = family_crash(seed)
    for c in fam:
        c["checks"] = ["dircheck"]
    return fam


def family_batch_codec(seed):
    """Serialized write batches (the payload of a WAL record): well formed, cut at and inside element
    boundaries, with a count that disagrees with the elements present, with bad operation bytes."""
    def varint(v):
        out = bytearray()
        while v >= 0x80:
            out.append((v & 0x7f) | 0x80)
            v >>= 7
        out.append(v)
        return bytes(out)
    def el(op, k, v=None):
        b = bytes([op]) + varint(len(k)) + k
        if op == 1:
            b += varint(len(v)) + v
        return b
    def batch(seq, els, count=None):
        return seq.to_bytes(8, "little") + varint(len(els) if count is None else count) + b"".join(els)
    x = (seed * 1103515245 + 12345) & 0x7fffffff
    big = bytes((i * 7 + seed) % 251 for i in range(300))
    sets = [
        [el(1, b"a", b"1"), el(0, b"b"), el(1, b"c", b"")],
        [el(1, b"", b""), el(1, big[:130], big), el(0, b"")],
        [el(0, b"k")],
        [],
        [el(1, bytes([x % 256]), bytes([(x >> 8) % 256, 0xff, 0])), el(1, b"zz", big[:200]), el(0, b"zz"), el(1, b"y", b"2")],
    ]
    raws = []
    for els in sets:
        full = batch(7 + seed, els)
        raws.append(full)
        # count says more / fewer elements than are present
        raws.append(batch(7, els, len(els) + 1))
        if els:
            raws.append(batch(7, els, len(els) - 1))
            # cut exactly at every element boundary and one byte before / after it
            off = 8 + len(varint(len(els)))
            for e in els:
                off += len(e)
                for d in (-1, 0, 1):
                    raws.append(full[:max(0, off + d)])
    # a batch with more operations than fit a one-byte count (seeded change C02-r9m1 read the count into a u8)
    raws.append(batch(9 + seed, [el(1, b"k%03d" % i, b"v") if i % 5 else el(0, b"k%03d" % i) for i in range(300)]))
    raws.append(b"")
    raws.append(bytes(7))
    raws.append(batch(1, [bytes([2]) + varint(1) + b"a"]))           # unknown operation byte
    raws.append(batch(1, [bytes([1]) + varint(5) + b"ab"]))          # key shorter than announced
    encs = [[9, "61", "31", "62", "!", "63", "-"], [2 ** 40 + seed, "-", "-"], [1, "6b", "!"]]
    return [{"oracle": "batch_codec", "bytes": [r.hex() if r else "-" for r in raws], "encode": encs}]


def family_bloom(seed):
    """Key sets of several sizes and shapes at several bits-per-key settings: every key must match."""
    x = (seed * 2654435761 + 99991) & 0xffffffff
    def rnd(n):
        nonlocal x
        x = (x * 1103515245 + 12345) & 0x7fffffff
        return (x >> 7) % n
    sets = [
        [b""], [b"a"], [b"", b"\x00", b"\xff", b"\xff\xff"], [bytes([i]) for i in range(40)],
        [bytes([rnd(256) for _ in range(rnd(9))]) for _ in range(300)],
        [b"k%05d" % i for i in range(120)],
        [bytes([0xff]) * n for n in range(1, 30)],
    ]
    rows = []
    for bits in (0, 1, 2, 5, 10, 20, 44, 100):
        for ks in sets:
            rows.append([bits] + [k.hex() if k else "-" for k in ks])
    return [{"oracle": "bloom", "bloom": rows}]


FAMILIES = [
    ("U46::", family_faults),
    ("U47::", family_crash),
    ("U05::implLogReader::read_physical_record::eof-inside-a-fragment-is-remembered", family_crash),
    ("U05::implLogReader::read_record::torn-tail-is-remembered", family_crash),
    ("U35::", family_batch_codec),
    ("U06::", family_bloom),
    ("U19::write_snapshot_record_file", family_db_snapshot),
    ("U10::implTable::get", family_table_get),
    ("U05::", family_log_reader),
    ("U04::", family_log_reader),
    ("U14::implFileMetadata::get_key_range_for_files", family_key_range),
    # everything else that is observable through the database API: whole-database histories
    ("U25::", family_db_views), ("U29::", family_db_views), ("U18::", family_db_views), ("U17::", family_db_views),
    ("U16::", family_db_views), ("U20::", family_db_views), ("U15::", family_db_views), ("U19::", family_db_views),
    ("U13::", family_db_views), ("U14::", family_db_views), ("U10::", family_db_views), ("U11::", family_db_views),
    ("U08::", family_db_views), ("U12::", family_db_views), ("U27::", family_db_views), ("U28::", family_db_views),
    ("U02::", family_db_views),
]


_SEARCH_MEMO = {}


def search_counterexample(obligation, repo, seed=0):
    fam = None
    for prefix, fn in FAMILIES:
        if obligation.startswith(prefix):
            fam = fn(seed)
            memo_key = (fn.__name__, repo, seed)
            break
    if fam is None:
        return None, "no executable oracle is registered for this obligation"
    # one search per family and tree within a run: several failed obligations of one family are
    # witnessed by the same failing input
    if memo_key in _SEARCH_MEMO:
        return _SEARCH_MEMO[memo_key][:2]
    res = _search_family(fam, repo, known_kinds(memo_key[0]))
    _SEARCH_MEMO[memo_key] = res
    return res[:2]


def family_scan_damage(seed):
    """Lookups and scans over a table file in which one byte was altered (C15; oracle scan_damage):
    tables of about 25 blocks of 256 bytes; the altered byte sweeps the file."""
    a = lambda s: s.encode().hex() if s else "-"
    fam = []
    n = 120
    base = [["put", a("key%04d" % i), a("v" * 30 + "%03d" % i)] for i in range(n)]
    for num in (1, 3, 5, 7, 9, 11):
        fam.append({"oracle": "scan_damage", "db": base + [["flush"], ["damage_table", str(num), "12", str(1 << ((seed + num) % 8))]]})
    two = base[:60] + [["flush"]] + [["put", a("key%04d" % i), a("w%03d" % i)] for i in range(0, 120, 7)] + [["delete", a("key0033")], ["flush"], ["compact"]]
    fam.append({"oracle": "scan_damage", "db": two + [["damage_table", str(2 + seed % 5), "8", "128"]]})
    return fam


def family_manifest_type(seed):
    """C15: the type code of one manifest fragment is changed from Full to First while the database
    is closed (checksum and payload untouched); oracle manifest_type."""
    a = lambda s: s.encode().hex() if s else "-"
    P = lambda k, v: ["put", a(k), a(v)]
    D = lambda k: ["delete", a(k)]
    F, C = ["flush"], ["compact"]
    hs = [
        [P("a", "1"), P("b", "old"), F, P("b", "new"), F],
        [P("a", "1"), F, C, P("b", "2"), F, D("a"), F],
        [P("k%d" % (seed % 5), "x"), F, P("m", "1"), P("k%d" % (seed % 5), "y"), F, C],
    ]
    fam = []
    for h in hs:
        for k in (0, 1, 2):
            fam.append({"oracle": "manifest_type", "db": h + [["manifest_fragment_type", str(k)]]})
    return fam


def family_policy_switch(seed):
    """C14 / C01: tables written under one filter policy, read under another whose name sorts before
    (or, the other way round, after) it; oracle policy_switch / policy_switch_back."""
    a = lambda s: s.encode().hex() if s else "-"
    P = lambda k, v: ["put", a(k), a(v)]
    D = lambda k: ["delete", a(k)]
    F, C = ["flush"], ["compact"]
    hs = [
        [P("apple", "1"), P("banana", "2"), F],
        [P("a", "1"), P("b", "2"), F, P("b", "3"), D("a"), P("c%d" % (seed % 7), "4"), F, C],
        [P("k%03d" % i, "v%d" % i) for i in range(0, 60, 3)] + [F],
    ]
    return [{"oracle": o, "db": h} for h in hs for o in ("policy_switch", "policy_switch_back")]


def known_kinds(family):
    """Committed known findings (status known) of a bounded family, by the kind the oracle reports."""
    try:
        with open(os.path.join(VERIF, "known_findings.json")) as f:
            kf = json.load(f)
    except Exception:
        return {}
    return dict((k["kind"], k) for k in kf.get("findings", [])
                if k.get("status") == "known" and k.get("obligation") == "BOUNDED::" + family and k.get("kind"))


def _search_family(fam, repo, known=None):
    """Returns (first failing input or None, oracle text, known hits).  An input whose ONLY
    disagreement is of a kind listed as a known finding is recorded and the search goes on."""
    hits = []
    with ReplayBuild(repo) as rb:
        for cex in fam:
            out = rb.run(cex_to_text(cex))
            if "REPLAY violated" in out:
                m = re.search(r"kind=(\S+)", out)
                if known and m and m.group(1) in known:
                    hits.append({"kind": m.group(1), "observed": out.strip()[:400]})
                    continue
                cex = dict(cex)
                cex["observed"] = out
                return cex, cex["oracle"], hits
    return None, "searched %d inputs of the registered family, none fails on the real code" % len(fam), hits


BOUNDS = {
    "family_crash_dir": "the inputs of family_crash; after the crash point the fault is cleared, the database is reopened, written once more and reopened again, and then its directory is compared with the current version, sampled for up to 3 s: a table file that is not in the current version, a missing one, a temp file or a manifest other than the one CURRENT names is reported only if it persists over all samples; write-ahead logs are not judged",
    "family_crash": "9 whole-database histories (the 5 of family_faults, 2 with values of 40000 and 70000 bytes, i.e. log records spanning 2-3 blocks of 32 KiB, and 2 in which an orphan table file, a temp file and a superseded manifest are dropped into the directory while the database is closed), each re-run once per counted file-system call and per crash mode (the call and everything after it fails; a failing write leaves 0 bytes, 1 byte, half or all but the last byte of its buffer); after the crash point the fault is cleared and the database is reopened, read, written once more and reopened again; in-process state that survives the simulated crash is not reset (only the file system decides what the restarted database sees)",
    "family_faults": "5 whole-database histories (3 hand-written, 2 pseudo-random per seed; at most 14 operations over 5 keys, with flushes, manual compactions and reopens, reuse_log_files on and off), each re-run once per counted file-system call (about 60 to 170 per history) with that call failing once, with that call and all later ones failing, and with that call failing once after half of its buffer was written (a torn write that is reported); only wrong results are judged - a panic or a hang of a faulted run is counted as not judged",
    "family_db_views": "whole-database histories of at most 85 operations over 7 keys (18 hand-written - among them the witnesses of F11 (level-targeted manual compactions with 4 KiB files) and F12 (one byte of the manifest altered between close and reopen; `open` may refuse) - + 10 pseudo-random per seed); every live snapshot and the latest state read back through get, both scan directions, seek to every key, a zig-zag walk and 5 cursor scripts per key; every history ends with a directory check (snapshots and iterators released, one empty flush, then the table files on disk must be those of the current version)",
    "family_scan_damage": "7 databases of 120 keys in table files of about 25 blocks (block size 256); one byte of the newest table file is altered at 7 positions spread over the file; every key is looked up and the database is scanned in both directions; a lookup may fail, a scan may fail, neither may show anything else than the pairs written",
    "family_manifest_type": "3 histories of two or three flushes (one with a manual compaction); while the database is closed the type code of the last, second-to-last or third-to-last fragment of the manifest is changed from Full to First, checksum and payload untouched; each history is also run unaltered (control); `open` may refuse, otherwise every key is looked up and the database is scanned",
    "family_policy_switch": "3 histories (2, 4 and 20 keys, one with a manual compaction) written under the built-in Bloom policy and read back after a reopen under a policy with its own filter format whose name sorts before the Bloom policy's - and the other way round; every key is looked up",
    "family_log_reader": "write-ahead-log byte streams built from the hand-written and seeded append / reopen / truncate / flip / peek scripts of tools/replay.py (records up to 3 blocks; `peek` = a reader opened between two writer sessions and not drained); the real reader is compared with the reference reader on the resulting bytes and, for scripts without damage, with the records appended",
    "family_table_get": "one table of 16 entries (4 user keys x 4 versions) at block sizes 1, 64, 150, 4096 with 49 lookups, plus a one-entry table",
    "family_key_range": "three hand-written file lists",
    "family_bloom": "7 key sets (sizes 1 to 300, empty / 0x00 / 0xff keys, one pseudo-random set per seed) at 8 bits-per-key settings from 0 to 100",
    "family_batch_codec": "a batch of 300 operations and 5 batches of at most 4 elements (keys and values up to 300 bytes): each well formed, with the count off by one either way, cut at and one byte around every element boundary; 4 malformed buffers; 3 encodings",
}


def run_family(name, repo, seed=0):
    """Bounded stand-in: runs every input of a family on the real code.  Returns a dict."""
    fn = globals()[name]
    fam = fn(seed)
    key = (name, repo, seed)
    # developer aid (tools/run_seeded.py): several property checks of ONE scratch tree share the
    # result of a family through a cache directory; never set for the registered commands
    cdir = os.environ.get("VERIF_FAMILY_CACHE")
    cfile = os.path.join(cdir, "%s.%d.json" % (name, seed)) if cdir else None
    known = known_kinds(name)
    hits = []
    if key in _SEARCH_MEMO:
        cex, oracle, hits = _SEARCH_MEMO[key]
    elif cfile:
        import fcntl
        os.makedirs(cdir, exist_ok=True)
        with open(cfile + ".lock", "w") as lk:
            fcntl.flock(lk, fcntl.LOCK_EX)
            if os.path.exists(cfile):
                with open(cfile) as f:
                    cex, oracle, hits = json.load(f)
            else:
                cex, oracle, hits = _search_family(fam, repo, known)
                with open(cfile, "w") as f:
                    json.dump([cex, oracle, hits], f)
        _SEARCH_MEMO[key] = (cex, oracle, hits)
    else:
        cex, oracle, hits = _search_family(fam, repo, known)
        _SEARCH_MEMO[key] = (cex, oracle, hits)
    return {"family": name, "inputs": len(fam), "bound": BOUNDS.get(name, ""), "counterexample": cex, "known_hits": hits,
            "result": "violated" if cex else "holds on every input run", "sample": cex_to_text(fam[0]).split("\n")[:12]}


def replay_file(path, repo):
    with open(path) as f:
        rp = json.load(f)
    print("replay of %s (%s)" % (rp.get("obligation"), rp.get("property")))
    cex = rp.get("counterexample")
    if cex:
        with ReplayBuild(repo) as rb:
            out = rb.run(cex_to_text(cex))
        print(out)
        return 1 if "REPLAY violated" in out else 0
    # no concrete input: re-run the obligation's unit and print the verifier's diagnostic
    import vcheck
    unit = rp.get("unit")
    if unit:
        r = vcheck.run_unit(unit, repo, "quick", probe=False, workdir="_replay")
        hit = [fl for fl in r.failures if fl["obligation"] == rp.get("obligation")]
        if hit:
            print("REPLAY violated (no-failing-input-found): obligation still fails in Verus")
            print(hit[0]["rendered"])
            return 1
        print("REPLAY holds: obligation %s is discharged on the current tree (unit status %s)" % (rp.get("obligation"), r.status))
        return 0
    print(rp.get("verifier_output", ""))
    return 1


if __name__ == "__main__":
    sys.exit(replay_file(sys.argv[1], os.environ.get("VERIF_REPO", "/repo")))
